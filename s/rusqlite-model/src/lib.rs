//! Bounded relational stand-in for rusqlite (engine S).
//!
//! * API surface: exactly what `sqlite/src/lib.rs` uses (`Connection::{open,execute,query_row}`,
//!   `params!`, `Row::get` by index and by name, `OptionalExtension`, `types::*`, `Error`).
//! * Database: typed global tables of `Val` cells (a global, not the heap: see k/src/model.rs).
//! * Statement semantics: GENERATED from the SQL literals of the glue (`gen.rs`, written by
//!   gen_sql.py on every run) on top of the primitives below, which encode the documented SQLite
//!   behaviour the glue relies on (listed in DESIGN.md section 2, each confirmed natively).
#![allow(dead_code, static_mut_refs, clippy::all)]
use std::path::Path;

/// rows per table / cells per row / max bytes of a blob cell
#[cfg(feature = "rows4")]
pub const NR: usize = 4;
#[cfg(not(feature = "rows4"))]
pub const NR: usize = 3;
pub const NC: usize = 6;
pub const BL: usize = 2;
pub const MAXCONN: usize = 4;

#[derive(Clone, Copy, PartialEq, Eq, Debug)]
pub struct Text {
    pub len: u8,
    pub b: [u8; 36],
}
#[derive(Clone, Copy, PartialEq, Eq, Debug)]
pub struct Blob {
    pub len: u8,
    pub b: [u8; BL],
}
#[derive(Clone, Copy, PartialEq, Eq, Debug)]
pub enum Val {
    Null,
    Int(i64),
    Text(Text),
    Blob(Blob),
}

#[derive(Clone, Copy, PartialEq, Eq, Debug)]
pub enum Aff {
    Numeric,
    Integer,
    Text,
    Blob,
}

/// column constraints a table got from the CREATE TABLE that actually created it
#[derive(Clone, Copy, PartialEq, Eq)]
pub struct Cons {
    pub notnull: [bool; NC],
    pub has_dflt: [bool; NC],
    pub dflt: [i32; NC],
    pub uniq: [bool; NC],
}
pub const NOCONS: Cons = Cons { notnull: [false; NC], has_dflt: [false; NC], dflt: [0; NC], uniq: [false; NC] };
/// an index, identified by its name slot (IF NOT EXISTS is about the name)
#[derive(Clone, Copy, PartialEq, Eq)]
pub struct Index {
    pub exists: bool,
    pub unique: bool,
    pub cols: [bool; NC],
}
pub const NOINDEX: Index = Index { exists: false, unique: false, cols: [false; NC] };

#[derive(Clone, Copy, PartialEq, Eq)]
pub struct Table {
    pub created: bool,
    pub used: [bool; NR],
    pub rowid: [u32; NR],
    pub next_rowid: u32,
    pub rows: [[Val; NC]; NR],
    pub cons: Cons,
    pub idx: [Index; 2],
}
pub const EMPTY_TABLE: Table = Table { created: false, used: [false; NR], rowid: [0; NR], next_rowid: 1, rows: [[Val::Null; NC]; NR], cons: NOCONS, idx: [NOINDEX; 2] };

#[derive(Clone, Copy, PartialEq, Eq)]
pub struct Db {
    pub t: [Table; NT],
}
pub const EMPTY_DB: Db = Db { t: [EMPTY_TABLE; NT] };

#[derive(Clone, Copy, PartialEq, Eq, Debug)]
pub enum BeginMode {
    Deferred,
    Immediate,
    Exclusive,
}
#[derive(Clone, Copy, PartialEq, Eq, Debug)]
pub enum Conflict {
    Abort,
    Replace,
    Ignore,
}

/// Per-connection state is kept in small parallel arrays of scalars: a connection id read back
/// from a heap object is not a constant for CBMC, and `&mut CONNS[c]` on an array of large
/// structs is a pointer at a symbolic offset (byte-level access over the whole array; measured
/// 5-6 M SAT variables per harness). The rollback image is a single global: only the holder of
/// the write lock can have changed anything.
#[derive(Clone, Copy)]
pub struct Conns {
    pub open: [bool; MAXCONN],
    pub in_txn: [bool; MAXCONN],
    pub deferred: [bool; MAXCONN],
    pub has_lock: [bool; MAXCONN],
}
pub const NOCONNS: Conns = Conns { open: [false; MAXCONN], in_txn: [false; MAXCONN], deferred: [false; MAXCONN], has_lock: [false; MAXCONN] };
pub static mut SAVED: Db = EMPTY_DB;

/// What the harness can observe about how the glue used the database.
#[derive(Clone, Copy)]
pub struct Mon {
    pub calls: u16,
    pub unmodelled: bool,
    pub bad_params: bool,
    /// a TEXT value that is a well-formed numeric literal was stored into a column with
    /// NUMERIC/INTEGER affinity (SQLite would silently convert it), or a non-text into TEXT
    pub affinity_hazard: bool,
    pub unsafe_pragma: bool,
    pub journal_mode_set: bool,
    pub begin_deferred: bool,
    pub begins: u8,
    pub commits: u8,
    pub write_outside_txn: bool,
    pub stmts_before_begin: bool,
    pub busy: bool,
    pub rollbacks_on_drop: u8,
    pub capacity: bool,
    pub schema_mismatch: bool,
    pub faults_fired: u8,
    pub opens: u8,
}
pub const MON0: Mon = Mon {
    calls: 0,
    unmodelled: false,
    bad_params: false,
    affinity_hazard: false,
    unsafe_pragma: false,
    journal_mode_set: false,
    begin_deferred: false,
    begins: 0,
    commits: 0,
    write_outside_txn: false,
    stmts_before_begin: false,
    busy: false,
    rollbacks_on_drop: 0,
    capacity: false,
    schema_mismatch: false,
    faults_fired: 0,
    opens: 0,
};

pub static mut DB: Db = EMPTY_DB;
pub static mut CONNS: Conns = NOCONNS;
pub static mut WRITER: usize = MAXCONN; // connection holding the write lock
pub static mut MON: Mon = MON0;
/// 1-based index of the rusqlite call that fails (0 = none)
pub static mut FAULT_AT: u16 = 0;

/// native replay only: back to the state a fresh process starts in
pub fn reset_for_replay() {
    unsafe {
        DB = EMPTY_DB;
        SAVED = EMPTY_DB;
        STMT_SNAP = EMPTY_DB;
        CONNS = NOCONNS;
        WRITER = MAXCONN;
        MON = MON0;
        FAULT_AT = 0;
    }
}

pub fn db() -> &'static mut Db {
    unsafe { &mut DB }
}
pub fn mon() -> &'static mut Mon {
    unsafe { &mut MON }
}
pub fn reset_all() {
    unsafe {
        DB = EMPTY_DB;
        CONNS = NOCONNS;
        SAVED = EMPTY_DB;
        WRITER = MAXCONN;
        MON = MON0;
        FAULT_AT = 0;
    }
}

#[derive(Clone, Copy)]
pub struct RowData {
    pub ncols: usize,
    pub names: [&'static str; NC],
    pub vals: [Val; NC],
}

pub enum StmtResult {
    Changed(usize),
    Row(RowData),
    NoRows,
    Busy,
    Constraint,
    NoTxn,
    BadParams,
    SchemaError,
    Unmodelled,
}

// -------------------------------------------------------------------------------------------------
// SQL value semantics

/// SQL `=`: NULL never equals anything; values of different storage classes are never equal
/// (affinity has been applied at store time)
pub fn sql_eq(a: &Val, b: &Val) -> bool {
    match (a, b) {
        (Val::Int(x), Val::Int(y)) => x == y,
        (Val::Text(x), Val::Text(y)) => text_eq(x, y),
        (Val::Blob(x), Val::Blob(y)) => x.len == y.len && x.b == y.b,
        _ => false,
    }
}
/// SQL `!=` / `<>`: NULL on either side is not true; otherwise the negation of `=`
pub fn sql_ne(a: &Val, b: &Val) -> bool {
    match (a, b) {
        (Val::Null, _) | (_, Val::Null) => false,
        _ => !sql_eq(a, b),
    }
}
/// a string literal of a statement as a TEXT value
pub fn lit_text(s: &str) -> Val {
    let b = s.as_bytes();
    let mut t = [0u8; 36];
    let mut i = 0;
    while i < 36 {
        if i < b.len() {
            t[i] = b[i];
        }
        i += 1;
    }
    Val::Text(Text { len: b.len() as u8, b: t })
}
/// uncorrelated sub-selects see the database as it was when the statement started
pub static mut STMT_SNAP: Db = EMPTY_DB;
pub fn snap_stmt() {
    unsafe {
        STMT_SNAP = DB;
    }
}
pub fn stmt_snap() -> &'static Db {
    unsafe { &STMT_SNAP }
}
pub fn text_eq(x: &Text, y: &Text) -> bool {
    if x.len != y.len {
        return false;
    }
    let mut ok = true;
    let mut i = 0;
    while i < 36 {
        if i < x.len as usize && x.b[i] != y.b[i] {
            ok = false;
        }
        i += 1;
    }
    ok
}
/// `col + k`: NULL + k = NULL; integer addition otherwise (text/blob operands: outside the model)
pub fn sql_add(a: &Val, k: i64) -> Val {
    match a {
        Val::Int(x) => Val::Int(x.wrapping_add(k)),
        Val::Null => Val::Null,
        _ => {
            mon().unmodelled = true;
            Val::Null
        }
    }
}
/// does this text look like a well-formed numeric literal (SQLite would convert it under
/// NUMERIC/INTEGER affinity)? DFA over: ws* [+-]? digits* [. digits*]? ([eE] [+-]? digits+)? ws*
pub fn looks_numeric(t: &Text) -> bool {
    // states: 0 start 1 sign 2 int 3 dot-after-int 4 frac 5 e 6 esign 7 exp 8 trailing-ws 9 dot-no-int 99 fail
    let mut st: u8 = 0;
    let mut i = 0;
    while i < 36 {
        if i < t.len as usize && st != 99 {
            let c = t.b[i];
            let d = c >= b'0' && c <= b'9';
            let ws = c == b' ' || c == b'\t' || c == b'\n';
            st = match st {
                0 => if ws { 0 } else if c == b'+' || c == b'-' { 1 } else if d { 2 } else if c == b'.' { 9 } else { 99 },
                1 => if d { 2 } else if c == b'.' { 9 } else { 99 },
                2 => if d { 2 } else if c == b'.' { 3 } else if c == b'e' || c == b'E' { 5 } else if ws { 8 } else { 99 },
                3 | 4 => if d { 4 } else if c == b'e' || c == b'E' { 5 } else if ws { 8 } else { 99 },
                9 => if d { 4 } else { 99 },
                5 => if d { 7 } else if c == b'+' || c == b'-' { 6 } else { 99 },
                6 => if d { 7 } else { 99 },
                7 => if d { 7 } else if ws { 8 } else { 99 },
                8 => if ws { 8 } else { 99 },
                _ => 99,
            };
        }
        i += 1;
    }
    st == 2 || st == 3 || st == 4 || st == 7 || st == 8
}
/// apply column affinity when a value is stored
pub fn store(ti: usize, ci: usize, v: Val) -> Val {
    match (AFFINITY[ti][ci], v) {
        (Aff::Numeric, Val::Text(t)) | (Aff::Integer, Val::Text(t)) => {
            if looks_numeric(&t) {
                mon().affinity_hazard = true;
            }
            v
        }
        (Aff::Text, Val::Int(_)) => {
            mon().affinity_hazard = true;
            v
        }
        _ => v,
    }
}

// -------------------------------------------------------------------------------------------------
// primitives used by the generated statements

fn conns() -> &'static mut Conns {
    unsafe { &mut CONNS }
}

pub fn create_table(c: usize, ti: usize, if_not_exists: bool, same_schema: bool, cons: &Cons) -> StmtResult {
    // CREATE ... IF NOT EXISTS on an existing object only reads the schema: no write lock needed
    if !(db().t[ti].created && if_not_exists) {
        // schema set-up runs in autocommit mode before any transaction: it needs the write lock,
        // but it is not a "write outside the transaction begun by txn()"
        unsafe {
            if WRITER != MAXCONN && WRITER != c {
                mon().busy = true;
                return StmtResult::Busy;
            }
        }
    }
    if db().t[ti].created {
        if !if_not_exists {
            return StmtResult::SchemaError;
        }
        if !same_schema {
            // the table keeps the schema it was created with: statements generated against a
            // different column list do not describe it
            mon().schema_mismatch = true;
        }
        return StmtResult::Changed(0);
    }
    if !same_schema {
        mon().schema_mismatch = true;
    }
    db().t[ti].created = true;
    db().t[ti].cons = *cons;
    StmtResult::Changed(0)
}
/// CREATE [UNIQUE] INDEX IF NOT EXISTS <name slot> ON table (cols): a no-op if an index of that
/// name exists (whatever its definition -- an upgraded database keeps its old index)
pub fn create_index(c: usize, ti: usize, slot: usize, cols: [bool; NC], unique: bool) -> StmtResult {
    if !db().t[ti].created {
        return StmtResult::SchemaError;
    }
    if db().t[ti].idx[slot].exists {
        return StmtResult::Changed(0);
    }
    // schema set-up runs in autocommit mode before any transaction: it needs the write lock, but it
    // is not a "write outside the transaction begun by txn()"
    unsafe {
        if WRITER != MAXCONN && WRITER != c {
            mon().busy = true;
            return StmtResult::Busy;
        }
    }
    if unique {
        // existing duplicates make the creation fail
        let mut i = 0;
        while i < NR {
            let mut j = 0;
            while j < i {
                if db().t[ti].used[i] && db().t[ti].used[j] && same_key(&db().t[ti].rows[i], &db().t[ti].rows[j], &cols) {
                    return StmtResult::Constraint;
                }
                j += 1;
            }
            i += 1;
        }
    }
    db().t[ti].idx[slot] = Index { exists: true, unique, cols };
    StmtResult::Changed(0)
}
/// two rows collide under a UNIQUE key over `cols`: all key columns equal and non-NULL
fn same_key(a: &[Val; NC], b: &[Val; NC], cols: &[bool; NC]) -> bool {
    let mut any = false;
    let mut eq = true;
    let mut k = 0;
    while k < NC {
        if cols[k] {
            any = true;
            if matches!(a[k], Val::Null) || matches!(b[k], Val::Null) || !sql_eq(&a[k], &b[k]) {
                eq = false;
            }
        }
        k += 1;
    }
    any && eq
}
/// row `new` (to be stored in slot `at`, NR = a new row) against NOT NULL and the UNIQUE keys of the
/// table (other than the primary key, which `insert` handles with its conflict clause);
/// returns the slot of a row it collides with, or NR
fn unique_clash(ti: usize, at: usize, new: &[Val; NC]) -> usize {
    let mut hit = NR;
    let mut i = 0;
    while i < NR {
        if db().t[ti].used[i] && i != at {
            let mut q = 0;
            while q < 2 {
                let ix = db().t[ti].idx[q];
                if ix.exists && ix.unique && same_key(&db().t[ti].rows[i], new, &ix.cols) {
                    hit = i;
                }
                q += 1;
            }
            let mut k = 0;
            while k < NC {
                if db().t[ti].cons.uniq[k] && !matches!(new[k], Val::Null) && sql_eq(&db().t[ti].rows[i][k], &new[k]) {
                    hit = i;
                }
                k += 1;
            }
        }
        i += 1;
    }
    hit
}
fn null_in_notnull(ti: usize, new: &[Val; NC]) -> bool {
    let mut k = 0;
    let mut bad = false;
    while k < NC {
        if db().t[ti].cons.notnull[k] && matches!(new[k], Val::Null) {
            bad = true;
        }
        k += 1;
    }
    bad
}
/// UPDATE: the new content of row `at` must respect the table's constraints
pub fn check_row(ti: usize, at: usize, new: &[Val; NC]) -> Option<StmtResult> {
    if null_in_notnull(ti, new) || unique_clash(ti, at, new) != NR {
        return Some(StmtResult::Constraint);
    }
    None
}
pub fn schema_noop(_c: usize, ti: usize) -> StmtResult {
    if !db().t[ti].created {
        return StmtResult::SchemaError;
    }
    StmtResult::Changed(0)
}
pub fn pragma(_c: usize, code: u8, safe: bool) -> StmtResult {
    if !safe {
        mon().unsafe_pragma = true;
    }
    if code == 1 {
        mon().journal_mode_set = true;
    }
    let mut vals = [Val::Null; NC];
    vals[0] = Val::Int(0);
    StmtResult::Row(RowData { ncols: 1, names: ["", "", "", "", "", ""], vals })
}
pub fn begin(c: usize, mode: BeginMode) -> StmtResult {
    let cs = conns();
    if cs.in_txn[c] {
        return StmtResult::SchemaError; // "cannot start a transaction within a transaction"
    }
    mon().begins += 1;
    match mode {
        BeginMode::Deferred => {
            mon().begin_deferred = true;
            cs.deferred[c] = true;
        }
        _ => unsafe {
            if WRITER != MAXCONN && WRITER != c {
                // the lock is held: rusqlite waits busy_timeout (5 s) and then fails
                mon().busy = true;
                return StmtResult::Busy;
            }
            WRITER = c;
            cs.has_lock[c] = true;
            SAVED = *db();
            cs.deferred[c] = false;
        },
    }
    cs.in_txn[c] = true;
    StmtResult::Changed(0)
}
pub fn commit(c: usize) -> StmtResult {
    let cs = conns();
    if !cs.in_txn[c] {
        return StmtResult::NoTxn;
    }
    cs.in_txn[c] = false;
    if cs.has_lock[c] {
        unsafe {
            WRITER = MAXCONN;
        }
        cs.has_lock[c] = false;
    }
    mon().commits += 1;
    StmtResult::Changed(0)
}
pub fn rollback(c: usize) -> StmtResult {
    let cs = conns();
    if !cs.in_txn[c] {
        return StmtResult::NoTxn;
    }
    cs.in_txn[c] = false;
    if cs.has_lock[c] {
        unsafe {
            *db() = SAVED;
            WRITER = MAXCONN;
        }
        cs.has_lock[c] = false;
    }
    StmtResult::Changed(0)
}
pub fn read_gate(_c: usize) {}
/// every write needs the write lock: inside an IMMEDIATE/EXCLUSIVE transaction it is held; a
/// deferred transaction or an autocommit statement must acquire it now
pub fn write_gate(c: usize) -> Option<StmtResult> {
    let cs = conns();
    unsafe {
        if WRITER != MAXCONN && WRITER != c {
            mon().busy = true;
            return Some(StmtResult::Busy);
        }
        if cs.in_txn[c] {
            if !cs.has_lock[c] {
                // a deferred transaction takes the write lock at its first write
                WRITER = c;
                cs.has_lock[c] = true;
                SAVED = *db();
            }
        } else {
            mon().write_outside_txn = true;
        }
    }
    None
}
pub fn insert(c: usize, ti: usize, mut row: [Val; NC], listed: [bool; NC], conflict: Conflict) -> StmtResult {
    if let Some(e) = write_gate(c) {
        return e;
    }
    if !db().t[ti].created {
        return StmtResult::SchemaError;
    }
    let mut k = 0;
    while k < NC {
        // a column the statement does not list gets its DEFAULT; so does an explicit NULL in a
        // NOT NULL column under OR REPLACE
        let cons = db().t[ti].cons;
        if cons.has_dflt[k] && (!listed[k] || (matches!(row[k], Val::Null) && cons.notnull[k] && matches!(conflict, Conflict::Replace))) {
            row[k] = Val::Int(cons.dflt[k] as i64);
        }
        row[k] = store(ti, k, row[k]);
        k += 1;
    }
    if null_in_notnull(ti, &row) {
        return match conflict {
            Conflict::Ignore => StmtResult::Changed(0),
            _ => StmtResult::Constraint,
        };
    }
    let clash = unique_clash(ti, NR, &row);
    if clash != NR {
        match conflict {
            Conflict::Abort => return StmtResult::Constraint,
            Conflict::Ignore => return StmtResult::Changed(0),
            Conflict::Replace => {
                let mut j = 0;
                while j < NR {
                    if j == clash {
                        db().t[ti].used[j] = false;
                    }
                    j += 1;
                }
            }
        }
    }
    let pk = PK_COL[ti];
    let mut dup = NR;
    let mut free = NR;
    let mut i = 0;
    while i < NR {
        if db().t[ti].used[i] {
            if pk < NC && sql_eq(&db().t[ti].rows[i][pk], &row[pk]) {
                dup = i;
            }
        } else if free == NR {
            free = i;
        }
        i += 1;
    }
    if dup != NR {
        match conflict {
            Conflict::Abort => return StmtResult::Constraint,
            Conflict::Ignore => return StmtResult::Changed(0),
            Conflict::Replace => {
                // REPLACE = delete the conflicting row, then insert (columns not listed are NULL)
                let mut j = 0;
                while j < NR {
                    if j == dup {
                        db().t[ti].used[j] = false;
                    }
                    j += 1;
                }
                if free == NR || dup < free {
                    free = dup;
                }
            }
        }
    }
    if free == NR {
        // out of model capacity: a bound of the harness, not a behaviour of SQLite
        mon().capacity = true;
        return StmtResult::Unmodelled;
    }
    let rid = db().t[ti].next_rowid;
    let mut j = 0;
    while j < NR {
        if j == free {
            db().t[ti].used[j] = true;
            db().t[ti].rows[j] = row;
            db().t[ti].rowid[j] = rid;
        }
        j += 1;
    }
    db().t[ti].next_rowid = rid + 1;
    StmtResult::Changed(1)
}

include!("gen.rs");

// -------------------------------------------------------------------------------------------------
// the rusqlite API surface

#[derive(Debug)]
pub enum Error {
    QueryReturnedNoRows,
    SqliteFailure(&'static str),
    FromSqlConversionFailure(types::FromSqlError),
    InvalidColumnIndex(usize),
    InvalidColumnName,
    InvalidParameterCount,
    ToSqlConversionFailure,
    Injected,
    Unmodelled,
}
impl std::fmt::Display for Error {
    fn fmt(&self, f: &mut std::fmt::Formatter<'_>) -> std::fmt::Result {
        f.write_str("rusqlite-model error")
    }
}
impl std::error::Error for Error {}
pub type Result<T, E = Error> = std::result::Result<T, E>;

pub mod types {
    use super::{Blob, Text, Val, BL};
    #[derive(Debug)]
    pub enum FromSqlError {
        InvalidType,
        OutOfRange(i64),
        InvalidBlobSize,
    }
    pub type FromSqlResult<T> = Result<T, FromSqlError>;
    #[derive(Clone, Copy, Debug)]
    pub enum ValueRef<'a> {
        Null,
        Integer(i64),
        Real(f64),
        Text(&'a [u8]),
        Blob(&'a [u8]),
    }
    impl<'a> ValueRef<'a> {
        pub fn as_str(&self) -> FromSqlResult<&'a str> {
            match *self {
                // text cells are ASCII by construction of every harness state (ids written by
                // Uuid::to_string); skipping re-validation avoids the UTF-8 state machine
                ValueRef::Text(t) => Ok(unsafe { std::str::from_utf8_unchecked(t) }),
                _ => Err(FromSqlError::InvalidType),
            }
        }
        pub fn as_blob(&self) -> FromSqlResult<&'a [u8]> {
            match *self {
                ValueRef::Blob(b) => Ok(b),
                _ => Err(FromSqlError::InvalidType),
            }
        }
        pub fn as_i64(&self) -> FromSqlResult<i64> {
            match *self {
                ValueRef::Integer(i) => Ok(i),
                _ => Err(FromSqlError::InvalidType),
            }
        }
    }
    pub enum Value {
        Null,
        Integer(i64),
        Real(f64),
        Text(String),
        Blob(Vec<u8>),
    }
    pub enum ToSqlOutput<'a> {
        Borrowed(ValueRef<'a>),
        Owned(Value),
    }
    impl From<String> for ToSqlOutput<'_> {
        fn from(s: String) -> Self {
            ToSqlOutput::Owned(Value::Text(s))
        }
    }
    impl<'a> From<&'a str> for ToSqlOutput<'a> {
        fn from(s: &'a str) -> Self {
            ToSqlOutput::Borrowed(ValueRef::Text(s.as_bytes()))
        }
    }
    impl From<i64> for ToSqlOutput<'_> {
        fn from(i: i64) -> Self {
            ToSqlOutput::Owned(Value::Integer(i))
        }
    }
    impl From<Vec<u8>> for ToSqlOutput<'_> {
        fn from(b: Vec<u8>) -> Self {
            ToSqlOutput::Owned(Value::Blob(b))
        }
    }
    impl<'a> From<&'a [u8]> for ToSqlOutput<'a> {
        fn from(b: &'a [u8]) -> Self {
            ToSqlOutput::Borrowed(ValueRef::Blob(b))
        }
    }
    pub trait ToSql {
        fn to_sql(&self) -> super::Result<ToSqlOutput<'_>>;
    }
    pub trait FromSql: Sized {
        fn column_result(value: ValueRef<'_>) -> FromSqlResult<Self>;
    }
    impl<T: ToSql + ?Sized> ToSql for &T {
        fn to_sql(&self) -> super::Result<ToSqlOutput<'_>> {
            (**self).to_sql()
        }
    }
    impl ToSql for i64 {
        fn to_sql(&self) -> super::Result<ToSqlOutput<'_>> {
            Ok(ToSqlOutput::Owned(Value::Integer(*self)))
        }
    }
    impl ToSql for i32 {
        fn to_sql(&self) -> super::Result<ToSqlOutput<'_>> {
            Ok(ToSqlOutput::Owned(Value::Integer(*self as i64)))
        }
    }
    impl ToSql for u32 {
        fn to_sql(&self) -> super::Result<ToSqlOutput<'_>> {
            Ok(ToSqlOutput::Owned(Value::Integer(*self as i64)))
        }
    }
    impl ToSql for u64 {
        fn to_sql(&self) -> super::Result<ToSqlOutput<'_>> {
            if *self > i64::MAX as u64 {
                return Err(super::Error::ToSqlConversionFailure);
            }
            Ok(ToSqlOutput::Owned(Value::Integer(*self as i64)))
        }
    }
    impl ToSql for Vec<u8> {
        fn to_sql(&self) -> super::Result<ToSqlOutput<'_>> {
            Ok(ToSqlOutput::Borrowed(ValueRef::Blob(self.as_slice())))
        }
    }
    impl ToSql for [u8] {
        fn to_sql(&self) -> super::Result<ToSqlOutput<'_>> {
            Ok(ToSqlOutput::Borrowed(ValueRef::Blob(self)))
        }
    }
    impl ToSql for String {
        fn to_sql(&self) -> super::Result<ToSqlOutput<'_>> {
            Ok(ToSqlOutput::Borrowed(ValueRef::Text(self.as_bytes())))
        }
    }
    impl ToSql for str {
        fn to_sql(&self) -> super::Result<ToSqlOutput<'_>> {
            Ok(ToSqlOutput::Borrowed(ValueRef::Text(self.as_bytes())))
        }
    }
    impl<T: ToSql> ToSql for Option<T> {
        fn to_sql(&self) -> super::Result<ToSqlOutput<'_>> {
            match self {
                None => Ok(ToSqlOutput::Owned(Value::Null)),
                Some(t) => t.to_sql(),
            }
        }
    }
    impl FromSql for i64 {
        fn column_result(v: ValueRef<'_>) -> FromSqlResult<Self> {
            v.as_i64()
        }
    }
    impl FromSql for u32 {
        fn column_result(v: ValueRef<'_>) -> FromSqlResult<Self> {
            let i = v.as_i64()?;
            u32::try_from(i).map_err(|_| FromSqlError::OutOfRange(i))
        }
    }
    impl FromSql for i32 {
        fn column_result(v: ValueRef<'_>) -> FromSqlResult<Self> {
            let i = v.as_i64()?;
            i32::try_from(i).map_err(|_| FromSqlError::OutOfRange(i))
        }
    }
    impl FromSql for bool {
        fn column_result(v: ValueRef<'_>) -> FromSqlResult<Self> {
            let i = v.as_i64()?;
            Ok(i != 0)
        }
    }
    impl FromSql for usize {
        fn column_result(v: ValueRef<'_>) -> FromSqlResult<Self> {
            let i = v.as_i64()?;
            usize::try_from(i).map_err(|_| FromSqlError::OutOfRange(i))
        }
    }
    impl FromSql for u64 {
        fn column_result(v: ValueRef<'_>) -> FromSqlResult<Self> {
            let i = v.as_i64()?;
            u64::try_from(i).map_err(|_| FromSqlError::OutOfRange(i))
        }
    }
    impl FromSql for Vec<u8> {
        fn column_result(v: ValueRef<'_>) -> FromSqlResult<Self> {
            // concrete-size allocation per length (symbolic-size allocations are a CBMC cost trap)
            let b = v.as_blob()?;
            Ok(match b.len() {
                0 => Vec::new(),
                1 => vec![b[0]],
                _ => vec![b[0], b[1]],
            })
        }
    }
    impl FromSql for String {
        fn column_result(v: ValueRef<'_>) -> FromSqlResult<Self> {
            v.as_str().map(|s| s.to_string())
        }
    }
    impl<T: FromSql> FromSql for Option<T> {
        fn column_result(v: ValueRef<'_>) -> FromSqlResult<Self> {
            match v {
                ValueRef::Null => Ok(None),
                _ => T::column_result(v).map(Some),
            }
        }
    }
    fn text(s: &[u8]) -> Val {
        if s.len() > 36 {
            super::mon().unmodelled = true;
            return Val::Null;
        }
        let mut b = [0u8; 36];
        let mut i = 0;
        while i < 36 {
            if i < s.len() {
                b[i] = s[i];
            }
            i += 1;
        }
        Val::Text(Text { len: s.len() as u8, b })
    }
    fn blob(s: &[u8]) -> Val {
        if s.len() > BL {
            super::mon().capacity = true;
            return Val::Null;
        }
        let mut b = [0u8; BL];
        let mut i = 0;
        while i < BL {
            if i < s.len() {
                b[i] = s[i];
            }
            i += 1;
        }
        Val::Blob(Blob { len: s.len() as u8, b })
    }
    pub(crate) fn to_val(o: ToSqlOutput<'_>) -> Val {
        match o {
            ToSqlOutput::Owned(Value::Null) | ToSqlOutput::Borrowed(ValueRef::Null) => Val::Null,
            ToSqlOutput::Owned(Value::Integer(i)) | ToSqlOutput::Borrowed(ValueRef::Integer(i)) => Val::Int(i),
            ToSqlOutput::Owned(Value::Real(_)) | ToSqlOutput::Borrowed(ValueRef::Real(_)) => {
                super::mon().unmodelled = true;
                Val::Null
            }
            ToSqlOutput::Owned(Value::Text(s)) => {
                let v = text(s.as_bytes());
                std::mem::forget(s);
                v
            }
            ToSqlOutput::Borrowed(ValueRef::Text(s)) => text(s),
            ToSqlOutput::Owned(Value::Blob(s)) => {
                let v = blob(&s);
                std::mem::forget(s);
                v
            }
            ToSqlOutput::Borrowed(ValueRef::Blob(s)) => blob(s),
        }
    }
}
pub use types::ToSql;
use types::*;

pub const MAXP: usize = 6;
pub struct Bound {
    pub n: usize,
    pub v: [Val; MAXP],
}
pub trait Params {
    fn bind(self) -> Result<Bound>;
}
impl Params for [&(dyn ToSql + Send + Sync); 0] {
    fn bind(self) -> Result<Bound> {
        Ok(Bound { n: 0, v: [Val::Null; MAXP] })
    }
}
impl Params for &[&dyn ToSql] {
    fn bind(self) -> Result<Bound> {
        let mut b = Bound { n: self.len(), v: [Val::Null; MAXP] };
        if self.len() > MAXP {
            mon().unmodelled = true;
            return Err(Error::Unmodelled);
        }
        let mut i = 0;
        while i < self.len() {
            b.v[i] = to_val(self[i].to_sql()?);
            i += 1;
        }
        Ok(b)
    }
}
macro_rules! array_params {
    ($($n:literal),*) => {$(
        impl<T: ToSql> Params for [T; $n] {
            fn bind(self) -> Result<Bound> {
                let mut b = Bound { n: $n, v: [Val::Null; MAXP] };
                let mut i = 0;
                while i < $n {
                    b.v[i] = to_val(self[i].to_sql()?);
                    i += 1;
                }
                Ok(b)
            }
        }
    )*};
}
array_params!(1, 2, 3, 4, 5, 6);
impl Params for () {
    fn bind(self) -> Result<Bound> {
        Ok(Bound { n: 0, v: [Val::Null; MAXP] })
    }
}
#[macro_export]
macro_rules! params {
    () => { &[] as &[&dyn $crate::ToSql] };
    ($($p:expr),+ $(,)?) => { &[$(&$p as &dyn $crate::ToSql),+] as &[&dyn $crate::ToSql] };
}

pub struct Row<'a> {
    data: &'a RowData,
}
pub trait RowIndex {
    fn idx(&self, d: &RowData) -> Result<usize>;
}
impl RowIndex for usize {
    fn idx(&self, d: &RowData) -> Result<usize> {
        if *self < d.ncols {
            Ok(*self)
        } else {
            Err(Error::InvalidColumnIndex(*self))
        }
    }
}
impl RowIndex for &str {
    fn idx(&self, d: &RowData) -> Result<usize> {
        let mut i = 0;
        while i < NC {
            if i < d.ncols && str_eq_ignore_case(d.names[i], self) {
                return Ok(i);
            }
            i += 1;
        }
        Err(Error::InvalidColumnName)
    }
}
fn str_eq_ignore_case(a: &str, b: &str) -> bool {
    // both sides are compile-time constants of the glue / the generator: plain comparison
    a.eq_ignore_ascii_case(b)
}
impl Row<'_> {
    pub fn get<I: RowIndex, T: FromSql>(&self, idx: I) -> Result<T> {
        let i = idx.idx(self.data)?;
        let r = match &self.data.vals[i] {
            Val::Null => T::column_result(ValueRef::Null),
            Val::Int(x) => T::column_result(ValueRef::Integer(*x)),
            Val::Text(t) => T::column_result(ValueRef::Text(&t.b[..t.len as usize])),
            Val::Blob(t) => T::column_result(ValueRef::Blob(&t.b[..t.len as usize])),
        };
        r.map_err(Error::FromSqlConversionFailure)
    }
    pub fn get_ref_unwrap<I: RowIndex>(&self, idx: I) -> Val {
        self.data.vals[idx.idx(self.data).unwrap()]
    }
}
pub trait OptionalExtension<T> {
    fn optional(self) -> Result<Option<T>>;
}
impl<T> OptionalExtension<T> for Result<T> {
    fn optional(self) -> Result<Option<T>> {
        match self {
            Ok(v) => Ok(Some(v)),
            Err(Error::QueryReturnedNoRows) => Ok(None),
            Err(e) => Err(e),
        }
    }
}

pub enum DatabaseName<'a> {
    Main,
    Temp,
    Attached(&'a str),
}

/// the connection object is one byte: per-connection state lives in the global `CONNS`
pub struct Connection {
    id: u8,
}

fn tick() -> bool {
    let m = mon();
    m.calls += 1;
    let f = unsafe { FAULT_AT != 0 && m.calls == FAULT_AT };
    if f {
        m.faults_fired += 1;
    }
    f
}

fn lift(r: StmtResult) -> Result<StmtResult> {
    match r {
        StmtResult::Busy => Err(Error::SqliteFailure("database is locked")),
        StmtResult::Constraint => Err(Error::SqliteFailure("constraint failed")),
        StmtResult::NoTxn => Err(Error::SqliteFailure("cannot commit - no transaction is active")),
        StmtResult::SchemaError => Err(Error::SqliteFailure("schema error")),
        StmtResult::BadParams => {
            mon().bad_params = true;
            Err(Error::InvalidParameterCount)
        }
        StmtResult::Unmodelled => {
            mon().unmodelled = true;
            Err(Error::Unmodelled)
        }
        other => Ok(other),
    }
}

impl Connection {
    pub fn open<P: AsRef<Path>>(_p: P) -> Result<Connection> {
        if tick() {
            return Err(Error::Injected);
        }
        mon().opens += 1;
        let mut id = MAXCONN;
        let mut i = 0;
        while i < MAXCONN {
            if !conns().open[i] && id == MAXCONN {
                id = i;
            }
            i += 1;
        }
        if id == MAXCONN {
            mon().capacity = true;
            return Err(Error::Unmodelled);
        }
        let cs = conns();
        cs.open[id] = true;
        cs.in_txn[id] = false;
        cs.deferred[id] = false;
        cs.has_lock[id] = false;
        Ok(Connection { id: id as u8 })
    }
    pub fn execute<P: Params>(&self, sql: &str, params: P) -> Result<usize> {
        let p = params.bind()?;
        if tick() {
            return Err(Error::Injected);
        }
        match lift(dispatch(self.id as usize, sql, &p))? {
            StmtResult::Changed(n) => Ok(n),
            // execute() of a statement that returns rows is an error in rusqlite
            StmtResult::Row(_) | StmtResult::NoRows => Err(Error::SqliteFailure("execute returned results")),
            _ => Err(Error::Unmodelled),
        }
    }
    pub fn query_row<T, P: Params, F: FnOnce(&Row<'_>) -> Result<T>>(&self, sql: &str, params: P, f: F) -> Result<T> {
        let p = params.bind()?;
        if tick() {
            return Err(Error::Injected);
        }
        match lift(dispatch(self.id as usize, sql, &p))? {
            StmtResult::Row(d) => f(&Row { data: &d }),
            StmtResult::NoRows => Err(Error::QueryReturnedNoRows),
            // a statement without result columns yields no rows
            StmtResult::Changed(_) => Err(Error::QueryReturnedNoRows),
            _ => Err(Error::Unmodelled),
        }
    }
    pub fn id(&self) -> usize {
        self.id as usize
    }
    /// `PRAGMA name = value` through the dedicated API
    pub fn pragma_update<V: ToSql>(&self, _schema: Option<DatabaseName<'_>>, name: &str, value: V) -> Result<()> {
        if tick() {
            return Err(Error::Injected);
        }
        let v = to_val(value.to_sql()?);
        let (is_off, is_mem) = match v {
            Val::Int(i) => (i == 0, false),
            Val::Text(t) => {
                let b = &t.b[..t.len as usize];
                (b.eq_ignore_ascii_case(b"off") || b == b"0", b.eq_ignore_ascii_case(b"memory") || b.eq_ignore_ascii_case(b"off"))
            }
            _ => (false, false),
        };
        if name.eq_ignore_ascii_case("synchronous") {
            if is_off {
                mon().unsafe_pragma = true;
            }
        } else if name.eq_ignore_ascii_case("journal_mode") {
            mon().journal_mode_set = true;
            if is_mem {
                mon().unsafe_pragma = true;
            }
        } else if name.eq_ignore_ascii_case("locking_mode") || name.eq_ignore_ascii_case("writable_schema") || name.eq_ignore_ascii_case("read_uncommitted") {
            mon().unsafe_pragma = true;
        } else if !(name.eq_ignore_ascii_case("busy_timeout") || name.eq_ignore_ascii_case("cache_size") || name.eq_ignore_ascii_case("foreign_keys") || name.eq_ignore_ascii_case("temp_store") || name.eq_ignore_ascii_case("mmap_size") || name.eq_ignore_ascii_case("journal_size_limit") || name.eq_ignore_ascii_case("wal_autocheckpoint")) {
            mon().unmodelled = true;
        }
        Ok(())
    }
    pub fn busy_timeout(&self, _d: std::time::Duration) -> Result<()> {
        Ok(())
    }
}
impl Drop for Connection {
    fn drop(&mut self) {
        let c = self.id as usize;
        let cs = conns();
        if cs.in_txn[c] {
            // closing a connection inside a transaction rolls it back
            if cs.has_lock[c] {
                unsafe {
                    *db() = SAVED;
                }
            }
            mon().rollbacks_on_drop += 1;
        }
        if cs.has_lock[c] {
            unsafe {
                WRITER = MAXCONN;
            }
        }
        cs.open[c] = false;
        cs.in_txn[c] = false;
        cs.has_lock[c] = false;
    }
}
