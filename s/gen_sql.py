#!/usr/bin/env python3
"""Generate the statement semantics of the rusqlite stand-in from the SQL string literals found
in a sqlite glue source file (current /repo/sqlite/src/lib.rs, plus the pinned copy for C19).

For every literal that lexes as SQL a small recursive-descent parser for the subset
  CREATE TABLE/INDEX IF NOT EXISTS, PRAGMA, BEGIN [IMMEDIATE|EXCLUSIVE|DEFERRED], COMMIT, ROLLBACK,
  INSERT [OR REPLACE|OR IGNORE] INTO t (cols) VALUES (?...),
  UPDATE t SET col = ?|col|col + k|NULL ... WHERE conj,
  SELECT cols FROM t WHERE conj [LIMIT k],  DELETE FROM t WHERE conj
produces one Rust function plus a dispatcher keyed by a perfect discriminator (length + a few byte
positions) of the literal. A literal the parser cannot handle dispatches to `Unmodelled`.
Output: Rust source on stdout (included by the rusqlite-model crate)."""
import re
import sys


def string_literals(src):
    """Rust string literals outside #[cfg(test)] (normal and raw), with escapes resolved"""
    src = src.split('#[cfg(test)]')[0]
    # strip line comments (not inside strings: good enough for this source, checked by the lexer below)
    out = []
    i = 0
    n = len(src)
    while i < n:
        c = src[i]
        if src.startswith('//', i):
            j = src.find('\n', i)
            i = n if j < 0 else j
            continue
        if c == '"':
            j = i + 1
            buf = []
            while j < n and src[j] != '"':
                if src[j] == '\\':
                    nx = src[j + 1]
                    if nx == 'n':
                        buf.append('\n')
                    elif nx == 't':
                        buf.append('\t')
                    elif nx == '\n':
                        # line continuation: skip newline and leading whitespace
                        j += 2
                        while j < n and src[j] in ' \t\n':
                            j += 1
                        continue
                    else:
                        buf.append(nx)
                    j += 2
                    continue
                buf.append(src[j])
                j += 1
            out.append(''.join(buf))
            i = j + 1
            continue
        if c == "'" and i + 2 < n and (src[i + 2] == "'" or (src[i + 1] == '\\' and src[i + 3] == "'")):
            i += 4 if src[i + 1] == '\\' else 3
            continue
        i += 1
    return out


SQL_START = re.compile(r'^\s*(CREATE|PRAGMA|BEGIN|COMMIT|ROLLBACK|INSERT|UPDATE|SELECT|DELETE|END)\b', re.I)


def tokens(sql):
    return re.findall(r"[A-Za-z_][A-Za-z_0-9]*|\d+|\?|[(),;=*+\-<>.!]|'[^']*'", sql)


class Unparsed(Exception):
    pass


class P:
    def __init__(self, sql):
        self.t = tokens(sql)
        self.i = 0

    def peek(self):
        return self.t[self.i] if self.i < len(self.t) else None

    def up(self):
        x = self.peek()
        return x.upper() if x else None

    def eat(self, *want):
        x = self.peek()
        if x is None or (want and x.upper() not in want):
            raise Unparsed('expected %s at %s' % (want, x))
        self.i += 1
        return x

    def opt(self, *want):
        if self.up() in want:
            self.i += 1
            return True
        return False

    def ident(self):
        x = self.peek()
        if x is None or not re.match(r'^[A-Za-z_]', x):
            raise Unparsed('identifier expected at %s' % x)
        self.i += 1
        return x

    def end(self):
        self.opt(';')
        if self.peek() is not None:
            raise Unparsed('trailing tokens: %s' % self.t[self.i:])


def parse(sql):
    p = P(sql)
    k = p.up()
    if k == 'CREATE':
        p.eat('CREATE')
        if p.opt('TABLE'):
            ine = False
            if p.opt('IF'):
                p.eat('NOT')
                p.eat('EXISTS')
                ine = True
            name = p.ident()
            p.eat('(')
            cols = []
            while True:
                cn = p.ident()
                ty = p.ident() if re.match(r'^[A-Za-z_]', p.peek() or '') and p.up() not in ('PRIMARY', 'NOT', 'UNIQUE', 'DEFAULT') else ''
                pk = False
                notnull = False
                dflt = None
                uniq = False
                while p.peek() not in (',', ')'):
                    if p.opt('PRIMARY'):
                        p.eat('KEY')
                        pk = True
                    elif p.opt('NOT'):
                        p.eat('NULL')
                        notnull = True
                    elif p.opt('UNIQUE'):
                        uniq = True
                    elif p.opt('DEFAULT'):
                        neg = p.opt('-')
                        v = p.eat()
                        if re.match(r'^\d+$', v):
                            dflt = -int(v) if neg else int(v)
                        elif v.upper() == 'NULL' and not neg:
                            dflt = None
                        else:
                            raise Unparsed('column constraint DEFAULT %s' % v)
                    else:
                        raise Unparsed('column constraint %s' % p.peek())
                cols.append((cn, ty.upper(), pk, notnull, dflt, uniq))
                if p.opt(','):
                    continue
                p.eat(')')
                break
            p.end()
            return ('create_table', name, cols, ine)
        unique = p.opt('UNIQUE')
        if p.opt('INDEX'):
            if p.opt('IF'):
                p.eat('NOT')
                p.eat('EXISTS')
            iname = p.ident()
            p.eat('ON')
            t = p.ident()
            p.eat('(')
            cs = [p.ident()]
            while p.opt(','):
                cs.append(p.ident())
            p.eat(')')
            p.end()
            return ('create_index', t, cs, unique, iname)
        raise Unparsed('CREATE what')
    if k == 'PRAGMA':
        p.eat('PRAGMA')
        name = p.ident()
        val = None
        if p.opt('='):
            val = p.eat()
        p.end()
        return ('pragma', name.lower(), (val or '').lower())
    if k == 'BEGIN':
        p.eat('BEGIN')
        mode = 'DEFERRED'
        if p.up() in ('IMMEDIATE', 'EXCLUSIVE', 'DEFERRED'):
            mode = p.eat().upper()
        p.opt('TRANSACTION')
        p.end()
        return ('begin', mode)
    if k in ('COMMIT', 'END'):
        p.eat()
        p.opt('TRANSACTION')
        p.end()
        return ('commit',)
    if k == 'ROLLBACK':
        p.eat()
        p.end()
        return ('rollback',)
    if k == 'INSERT':
        p.eat('INSERT')
        conflict = 'ABORT'
        if p.opt('OR'):
            conflict = p.eat('REPLACE', 'IGNORE').upper()
        p.eat('INTO')
        t = p.ident()
        p.eat('(')
        cols = [p.ident()]
        while p.opt(','):
            cols.append(p.ident())
        p.eat(')')
        p.eat('VALUES')
        p.eat('(')
        vals = [p.eat('?')]
        while p.opt(','):
            vals.append(p.eat('?'))
        p.eat(')')
        p.end()
        if len(vals) != len(cols):
            raise Unparsed('column/value count')
        return ('insert', t, cols, conflict)
    if k == 'UPDATE':
        p.eat('UPDATE')
        t = p.ident()
        p.eat('SET')
        sets = []
        nparam = 0
        while True:
            c = p.ident()
            p.eat('=')
            if p.opt('?'):
                sets.append((c, ('param', nparam)))
                nparam += 1
            elif p.up() == 'NULL':
                p.eat()
                sets.append((c, ('null',)))
            else:
                src = p.ident()
                if p.opt('+'):
                    kk = int(p.eat())
                    sets.append((c, ('colplus', src, kk)))
                elif p.opt('-'):
                    kk = int(p.eat())
                    sets.append((c, ('colplus', src, -kk)))
                else:
                    sets.append((c, ('col', src)))
            if not p.opt(','):
                break
        where, nparam = parse_where(p, nparam)
        p.end()
        return ('update', t, sets, where, nparam)
    if k == 'SELECT':
        p.eat('SELECT')
        if p.opt('EXISTS'):
            # SELECT EXISTS (SELECT <anything> FROM t WHERE ...): one row, one integer 0/1
            p.eat('(')
            p.eat('SELECT')
            p.eat()
            p.eat('FROM')
            t = p.ident()
            where, nparam = parse_where(p, 0)
            p.eat(')')
            p.end()
            return ('exists', t, where, nparam)
        cols = [p.ident()]
        while p.opt(','):
            cols.append(p.ident())
        p.eat('FROM')
        t = p.ident()
        where, nparam = parse_where(p, 0)
        limit = None
        if p.opt('LIMIT'):
            limit = int(p.eat())
        p.end()
        return ('select', t, cols, where, nparam, limit)
    if k == 'DELETE':
        p.eat('DELETE')
        p.eat('FROM')
        t = p.ident()
        where, nparam = parse_where(p, 0)
        p.end()
        return ('delete', t, where, nparam)
    raise Unparsed('statement kind %s' % k)


def parse_where(p, nparam):
    """WHERE conj; each conjunct is one of
         ('eq'|'ne', col, ('param', k) | ('lit', text) | ('int', n))
         ('isnull'|'notnull', col)
         ('in'|'notin', col, (table, subcol, subconj))"""
    conj = []
    if p.opt('WHERE'):
        while True:
            c = p.ident()
            if p.opt('IS'):
                neg = p.opt('NOT')
                p.eat('NULL')
                conj.append(('notnull' if neg else 'isnull', c))
            elif p.up() in ('IN', 'NOT'):
                neg = p.opt('NOT')
                p.eat('IN')
                p.eat('(')
                p.eat('SELECT')
                sc = p.ident()
                p.eat('FROM')
                st = p.ident()
                sub, nparam = parse_where(p, nparam)
                p.eat(')')
                conj.append(('notin' if neg else 'in', c, (st, sc, sub)))
            else:
                op = p.eat()
                if op == '<':
                    if p.opt('>'):
                        op = '!='
                    elif p.opt('='):
                        op = '<='
                elif op == '>':
                    if p.opt('='):
                        op = '>='
                elif op == '!':
                    p.eat('=')
                    op = '!='
                elif op != '=':
                    raise Unparsed('comparison operator %s' % op)
                kind = {'=': 'eq', '!=': 'ne', '<': 'lt', '<=': 'le', '>': 'gt', '>=': 'ge'}[op]
                if p.opt('?'):
                    if re.match(r'^\d+$', p.peek() or ''):
                        # numbered parameter ?N
                        k = int(p.eat())
                        conj.append((kind, c, ('param', k - 1)))
                        nparam = max(nparam, k)
                    else:
                        conj.append((kind, c, ('param', nparam)))
                        nparam += 1
                elif p.opt('('):
                    # scalar sub-select: (SELECT col FROM t WHERE ...)
                    p.eat('SELECT')
                    sc = p.ident()
                    p.eat('FROM')
                    st = p.ident()
                    sub, nparam = parse_where(p, nparam)
                    p.eat(')')
                    conj.append((kind, c, ('sub', (st, sc, sub))))
                else:
                    t = p.eat()
                    if t.startswith("'"):
                        conj.append((kind, c, ('lit', t[1:-1])))
                    elif re.match(r'^\d+$', t):
                        conj.append((kind, c, ('int', int(t))))
                    else:
                        raise Unparsed('comparison operand %s' % t)
            if not p.opt('AND'):
                break
    return conj, nparam


def discriminators(lits):
    """perfect discriminator: for literals of equal length, byte positions that tell them apart"""
    by_len = {}
    for s in lits:
        by_len.setdefault(len(s.encode()), []).append(s)
    plan = {}
    for ln, group in by_len.items():
        group = sorted(set(group))
        if len(group) == 1:
            plan[group[0]] = (ln, [])
            continue
        pos = []
        # greedy: pick positions until all distinct
        remaining = [g.encode() for g in group]
        while len(set(tuple(g[p] for p in pos) for g in remaining)) < len(remaining):
            best = max(range(ln), key=lambda q: len(set(tuple(g[p] for p in pos + [q]) for g in remaining)))
            pos.append(best)
        for g in group:
            plan[g] = (ln, [(q, g.encode()[q]) for q in pos])
    return plan


AFF = {'STRING': 'Numeric', 'NUMERIC': 'Numeric', 'INTEGER': 'Integer', 'INT': 'Integer', 'TEXT': 'Text', 'BLOB': 'Blob', '': 'Blob', 'REAL': 'Numeric'}


def main():
    srcs = sys.argv[1:]
    lits = []
    for s in srcs:
        for l in string_literals(open(s).read()):
            if SQL_START.match(l) and l not in lits:
                lits.append(l)
    parsed = []
    for l in lits:
        try:
            parsed.append((l, parse(l)))
        except Unparsed as ex:
            parsed.append((l, ('unmodelled', str(ex))))
    # schema: first CREATE TABLE per table name wins (IF NOT EXISTS afterwards is a no-op)
    tables = {}
    order = []
    for l, st in parsed:
        if st[0] == 'create_table' and st[1] not in tables:
            tables[st[1]] = st[2]
            order.append(st[1])
    out = []
    w = out.append
    w('// GENERATED by s/gen_sql.py from: %s' % ', '.join(srcs))
    w('// %d SQL literals, %d tables' % (len(lits), len(order)))
    w('pub const NT: usize = %d;' % max(len(order), 1))
    w('pub const TABLE_NAMES: [&str; NT] = [%s];' % ', '.join('"%s"' % t for t in order) if order else 'pub const TABLE_NAMES: [&str; NT] = [""];')
    for ti, t in enumerate(order):
        cols = tables[t]
        if len(cols) > 6:
            w('// table %s has more than 6 columns: unmodelled' % t)
        w('// table %d = %s(%s)' % (ti, t, ', '.join('%s %s%s' % (c[0], c[1], ' PK' if c[2] else '') for c in cols)))

    def col_index(t, c):
        if t not in tables:
            raise Unparsed('no such table ' + t)
        for i, cc in enumerate(tables[t]):
            if cc[0].lower() == c.lower():
                return i
        raise Unparsed('no such column %s.%s' % (t, c))

    fn_names = {}
    kinds = {}
    for idx, (l, st) in enumerate(parsed):
        name = 'stmt_%d' % idx
        fn_names[l] = name
        w('')
        w('// %s' % ' '.join(l.split()))
        try:
            kinds[l] = emit(w, name, st, tables, order, col_index)
        except Unparsed as ex:
            w('// unmodelled: %s' % ex)
            w('pub fn %s(_c: usize, _p: &Bound) -> StmtResult { StmtResult::Unmodelled }' % name)
            kinds[l] = 'unmodelled'
    # dispatcher
    plan = discriminators([l for l, _ in parsed])
    w('')
    w('pub fn dispatch(c: usize, sql: &str, p: &Bound) -> StmtResult {')
    w('    let b = sql.as_bytes();')
    by_len = {}
    for l, _ in parsed:
        by_len.setdefault(plan[l][0], []).append(l)
    for ln, group in sorted(by_len.items()):
        w('    if b.len() == %d {' % ln)
        for l in group:
            cond = ' && '.join('b[%d] == %d' % (q, v) for q, v in plan[l][1]) or 'true'
            w('        if %s { return %s(c, p); }' % (cond, fn_names[l]))
        w('    }')
    w('    StmtResult::Unmodelled')
    w('}')
    w('')
    w('/// (literal, statement kind) of everything found, for evidence and for the native differential check')
    w('pub const STATEMENTS: [(&str, &str); %d] = [' % len(parsed))
    for l, st in parsed:
        w('    (%s, "%s"),' % (rust_str(l), kinds[l]))
    w('];')
    # column metadata
    cur_src = srcs[0]
    cur_lits = [l for l in string_literals(open(cur_src).read()) if SQL_START.match(l)]
    cur_tab, cur_idx = {}, []
    for l in cur_lits:
        try:
            st = parse(l)
        except Unparsed:
            continue
        if st[0] == 'create_table' and st[1] not in cur_tab:
            cur_tab[st[1]] = st[2]
        if st[0] == 'create_index':
            cur_idx.append(st)
    w('/// constraints and indexes of a database created by the CURRENT source (harness states are such databases)')
    w('pub const CUR_CONS: [Cons; NT] = [%s];' % (', '.join(cons_expr(cur_tab.get(t, tables[t])) for t in order) or 'NOCONS'))
    ix = []
    for t in order:
        slots = []
        for st in cur_idx:
            if st[1] == t:
                try:
                    mask = [False] * 6
                    for cn in st[2]:
                        mask[col_index(t, cn)] = True
                    slots.append((index_slot(st[4]), mask, st[3]))
                except Unparsed:
                    pass
        arr = []
        for k in range(2):
            hit = [x for x in slots if x[0] == k]
            if hit:
                arr.append('Index { exists: true, unique: %s, cols: [%s] }' % ('true' if hit[0][2] else 'false', ', '.join('true' if m else 'false' for m in hit[0][1])))
            else:
                arr.append('NOINDEX')
        ix.append('[' + ', '.join(arr) + ']')
    w('pub const CUR_INDEXES: [[Index; 2]; NT] = [%s];' % (', '.join(ix) or '[NOINDEX; 2]'))
    w('pub const NCOLS: [usize; NT] = [%s];' % (', '.join(str(len(tables[t])) for t in order) or '0'))
    w('pub const PK_COL: [usize; NT] = [%s];' % (', '.join(str(next((i for i, c in enumerate(tables[t]) if c[2]), 99)) for t in order) or '99'))
    w('pub const AFFINITY: [[Aff; NC]; NT] = [%s];' % (', '.join('[' + ', '.join('Aff::' + AFF.get(tables[t][i][1], 'Numeric') if i < len(tables[t]) else 'Aff::Blob' for i in range(6)) + ']' for t in order) or '[Aff::Blob; NC]'))
    w('pub const COL_NAMES: [[&str; NC]; NT] = [%s];' % (', '.join('[' + ', '.join('"%s"' % tables[t][i][0] if i < len(tables[t]) else '""' for i in range(6)) + ']' for t in order) or '[""; NC]'))
    print('\n'.join(out))


INDEX_NAMES = []


def index_slot(name):
    """indexes are identified by NAME (IF NOT EXISTS is about the name): at most two per run"""
    n = name.lower()
    if n not in INDEX_NAMES:
        INDEX_NAMES.append(n)
    if INDEX_NAMES.index(n) > 1:
        raise Unparsed('more than two index names')
    return INDEX_NAMES.index(n)


def cons_expr(cols):
    nn = ', '.join('true' if (i < len(cols) and cols[i][3]) else 'false' for i in range(6))
    hd = ', '.join('true' if (i < len(cols) and cols[i][4] is not None) else 'false' for i in range(6))
    dv = ', '.join(str(cols[i][4]) if (i < len(cols) and cols[i][4] is not None) else '0' for i in range(6))
    uq = ', '.join('true' if (i < len(cols) and cols[i][5]) else 'false' for i in range(6))
    return 'Cons { notnull: [%s], has_dflt: [%s], dflt: [%s], uniq: [%s] }' % (nn, hd, dv, uq)


def rust_str(s):
    return '"' + s.replace('\\', '\\\\').replace('"', '\\"').replace('\n', '\\n').replace('\t', '\\t') + '"'


SUBS = []


def cond_expr(w, name, row, t, conj, tables, order, col_index):
    """Rust boolean expression for a WHERE conjunction over row variable `row` of table `t`"""
    parts = []
    for c in conj:
        kind = c[0]
        if kind in ('lt', 'le', 'gt', 'ge') or c[1].lower() == 'rowid' or (len(c) > 2 and isinstance(c[2], tuple) and c[2][0] == 'sub'):
            raise Unparsed('ordering comparison / rowid / scalar sub-select (modelled by engine Q only)')
        ci = col_index(t, c[1])
        if kind in ('eq', 'ne'):
            rhs = c[2]
            if rhs[0] == 'param':
                r = 'p.v[%d]' % rhs[1]
            elif rhs[0] == 'lit':
                if len(rhs[1].encode()) > 36:
                    raise Unparsed('string literal longer than 36 bytes')
                r = 'lit_text(%s)' % rust_str(rhs[1])
            else:
                r = 'Val::Int(%d)' % rhs[1]
            parts.append('sql_eq(&%s[%d], &%s)' % (row, ci, r) if kind == 'eq' else 'sql_ne(&%s[%d], &%s)' % (row, ci, r))
        elif kind == 'isnull':
            parts.append('matches!(%s[%d], Val::Null)' % (row, ci))
        elif kind == 'notnull':
            parts.append('!matches!(%s[%d], Val::Null)' % (row, ci))
        else:
            st2, sc, sub = c[2]
            if st2 not in order:
                raise Unparsed('no such table ' + st2)
            ti2 = order.index(st2)
            sci = col_index(st2, sc)
            fn = '%s_sub%d' % (name, len(SUBS))
            inner = cond_expr(w, fn, 'r2', st2, sub, tables, order, col_index)
            SUBS.append(fn)
            w('/// sub-select of the statement below: three-valued IN (1 = match, 2 = no match but a NULL in the set, 0 = no match)')
            w('fn %s(p: &Bound, v: &Val) -> u8 {' % fn)
            w('    let mut res = 0u8; let mut i = 0;')
            w('    while i < NR {')
            w('        let r2 = stmt_snap().t[%d].rows[i];' % ti2)
            w('        if stmt_snap().t[%d].used[i] && %s {' % (ti2, inner))
            w('            if sql_eq(&r2[%d], v) { res = 1; } else if matches!(r2[%d], Val::Null) && res == 0 { res = 2; }' % (sci, sci))
            w('        }')
            w('        i += 1;')
            w('    }')
            w('    let _ = p;')
            w('    res')
            w('}')
            if kind == 'in':
                parts.append('(!matches!(%s[%d], Val::Null) && %s(p, &%s[%d]) == 1)' % (row, ci, fn, row, ci))
            else:
                parts.append('(!matches!(%s[%d], Val::Null) && %s(p, &%s[%d]) == 0)' % (row, ci, fn, row, ci))
    return ' && '.join(parts) or 'true'


def emit(w, name, st, tables, order, col_index):
    k = st[0]
    if k == 'unmodelled':
        raise Unparsed(st[1])
    if k == 'create_table':
        ti = order.index(st[1])
        # "same schema" = same columns, types and key; NOT NULL / DEFAULT / UNIQUE are constraints the
        # table gets from whichever CREATE actually created it (cons below)
        same = [c[:3] for c in tables[st[1]]] == [c[:3] for c in st[2]]
        w('pub fn %s(c: usize, _p: &Bound) -> StmtResult { create_table(c, %d, %s, %s, &%s) }' % (name, ti, 'true' if st[3] else 'false', 'true' if same else 'false', cons_expr(st[2])))
        return 'create_table'
    if k == 'create_index':
        mask = [False] * 6
        for cn in st[2]:
            mask[col_index(st[1], cn)] = True
        w('pub fn %s(c: usize, _p: &Bound) -> StmtResult { create_index(c, %d, %d, [%s], %s) }' % (name, order.index(st[1]), index_slot(st[4]), ', '.join('true' if m else 'false' for m in mask), 'true' if st[3] else 'false'))
        return 'create_unique_index' if st[3] else 'create_index'
    if k == 'pragma':
        nm, val = st[1], st[2]
        safe = True
        code = 0
        if nm == 'journal_mode':
            safe = val in ('wal', 'delete', 'truncate', 'persist', '')
            code = 1
        elif nm == 'synchronous':
            safe = val in ('full', 'normal', 'extra', '1', '2', '3', '')
            code = 2
        elif nm in ('locking_mode', 'writable_schema', 'ignore_check_constraints', 'read_uncommitted', 'journal_size_limit', 'mmap_size', 'cache_size', 'foreign_keys', 'busy_timeout', 'temp_store'):
            safe = nm not in ('locking_mode', 'writable_schema', 'read_uncommitted')
            code = 3
        else:
            raise Unparsed('pragma ' + nm)
        w('pub fn %s(c: usize, _p: &Bound) -> StmtResult { pragma(c, %d, %s) }' % (name, code, 'true' if safe else 'false'))
        return 'pragma'
    if k == 'begin':
        w('pub fn %s(c: usize, p: &Bound) -> StmtResult { if p.n != 0 { return StmtResult::BadParams; } begin(c, BeginMode::%s) }' % (name, st[1].capitalize()))
        return 'begin_' + st[1].lower()
    if k == 'commit':
        w('pub fn %s(c: usize, p: &Bound) -> StmtResult { if p.n != 0 { return StmtResult::BadParams; } commit(c) }' % name)
        return 'commit'
    if k == 'rollback':
        w('pub fn %s(c: usize, _p: &Bound) -> StmtResult { rollback(c) }' % name)
        return 'rollback'
    if k == 'insert':
        _, t, cols, conflict = st
        ti = order.index(t) if t in order else None
        if ti is None:
            raise Unparsed('no such table ' + t)
        idx = [col_index(t, c) for c in cols]
        w('pub fn %s(c: usize, p: &Bound) -> StmtResult {' % name)
        w('    if p.n != %d { return StmtResult::BadParams; }' % len(cols))
        w('    let mut row = [Val::Null; NC];')
        for j, ci in enumerate(idx):
            w('    row[%d] = p.v[%d];' % (ci, j))
        w('    insert(c, %d, row, [%s], Conflict::%s)' % (ti, ', '.join('true' if q in idx else 'false' for q in range(6)), conflict.capitalize()))
        w('}')
        return 'insert' if conflict == 'ABORT' else 'insert_or_' + conflict.lower()
    if k == 'update':
        _, t, sets, where, nparam = st
        ti = order.index(t) if t in order else None
        if ti is None:
            raise Unparsed('no such table ' + t)
        w('pub fn %s(c: usize, p: &Bound) -> StmtResult {' % name)
        w('    if p.n != %d { return StmtResult::BadParams; }' % nparam)
        w('    if let Some(e) = write_gate(c) { return e; }')
        w('    snap_stmt();')
        w('    let mut n = 0; let mut i = 0;')
        w('    while i < NR {')
        w('        let old = db().t[%d].rows[i];' % ti)
        cond = cond_expr(w, name, 'old', t, where, tables, order, col_index)
        w('        if db().t[%d].used[i] && %s {' % (ti, cond))
        w('            let mut new = old;')
        for c, e in sets:
            ci = col_index(t, c)
            if e[0] == 'param':
                w('            new[%d] = store(%d, %d, p.v[%d]);' % (ci, ti, ci, e[1]))
            elif e[0] == 'null':
                w('            new[%d] = Val::Null;' % ci)
            elif e[0] == 'col':
                w('            new[%d] = store(%d, %d, old[%d]);' % (ci, ti, ci, col_index(t, e[1])))
            elif e[0] == 'colplus':
                w('            new[%d] = store(%d, %d, sql_add(&old[%d], %d));' % (ci, ti, ci, col_index(t, e[1]), e[2]))
        w('            if let Some(e) = check_row(%d, i, &new) { return e; }' % ti)
        w('            db().t[%d].rows[i] = new; n += 1;' % ti)
        w('        }')
        w('        i += 1;')
        w('    }')
        w('    StmtResult::Changed(n)')
        w('}')
        return 'update'
    if k == 'select':
        _, t, cols, where, nparam, limit = st
        ti = order.index(t) if t in order else None
        if ti is None:
            raise Unparsed('no such table ' + t)
        if len(cols) > 6:
            raise Unparsed('too many result columns')
        w('pub fn %s(c: usize, p: &Bound) -> StmtResult {' % name)
        w('    if p.n != %d { return StmtResult::BadParams; }' % nparam)
        w('    read_gate(c);')
        w('    snap_stmt();')
        w('    let mut found = NR; let mut best = u32::MAX; let mut i = 0;')
        w('    while i < NR {')
        w('        let r = db().t[%d].rows[i];' % ti)
        cond = cond_expr(w, name, 'r', t, where, tables, order, col_index)
        w('        if db().t[%d].used[i] && %s && db().t[%d].rowid[i] < best { found = i; best = db().t[%d].rowid[i]; }' % (ti, cond, ti, ti))
        w('        i += 1;')
        w('    }')
        w('    if found == NR { return StmtResult::NoRows; }')
        w('    let r = db().t[%d].rows[found];' % ti)
        w('    let mut vals = [Val::Null; NC];')
        for j, c in enumerate(cols):
            w('    vals[%d] = r[%d];' % (j, col_index(t, c)))
        w('    StmtResult::Row(RowData { ncols: %d, names: [%s], vals })' % (len(cols), ', '.join('"%s"' % (cols[j] if j < len(cols) else '') for j in range(6))))
        w('}')
        return 'select'
    if k == 'exists':
        _, t, where, nparam = st
        ti = order.index(t) if t in order else None
        if ti is None:
            raise Unparsed('no such table ' + t)
        w('pub fn %s(c: usize, p: &Bound) -> StmtResult {' % name)
        w('    if p.n != %d { return StmtResult::BadParams; }' % nparam)
        w('    read_gate(c);')
        w('    snap_stmt();')
        w('    let mut found = false; let mut i = 0;')
        w('    while i < NR {')
        w('        let r = db().t[%d].rows[i];' % ti)
        cond = cond_expr(w, name, 'r', t, where, tables, order, col_index)
        w('        if db().t[%d].used[i] && %s { found = true; }' % (ti, cond))
        w('        i += 1;')
        w('    }')
        w('    let mut vals = [Val::Null; NC];')
        w('    vals[0] = Val::Int(if found { 1 } else { 0 });')
        w('    StmtResult::Row(RowData { ncols: 1, names: ["", "", "", "", "", ""], vals })')
        w('}')
        return 'select_exists'
    if k == 'delete':
        _, t, where, nparam = st
        ti = order.index(t) if t in order else None
        if ti is None:
            raise Unparsed('no such table ' + t)
        w('pub fn %s(c: usize, p: &Bound) -> StmtResult {' % name)
        w('    if p.n != %d { return StmtResult::BadParams; }' % nparam)
        w('    if let Some(e) = write_gate(c) { return e; }')
        w('    snap_stmt();')
        w('    let mut n = 0; let mut i = 0;')
        w('    while i < NR {')
        w('        let r = db().t[%d].rows[i];' % ti)
        cond = cond_expr(w, name, 'r', t, where, tables, order, col_index)
        w('        if db().t[%d].used[i] && %s { db().t[%d].used[i] = false; n += 1; }' % (ti, cond, ti))
        w('        i += 1;')
        w('    }')
        w('    StmtResult::Changed(n)')
        w('}')
        return 'delete'
    raise Unparsed('emit ' + k)


if __name__ == '__main__':
    main()
