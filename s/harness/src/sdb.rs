//! Symbolic database states in the shape the glue itself writes, and the abstraction function
//! from the relational stand-in to the storage contract's view of one client.
use rusqlite::{Blob, Db, Table, Text, Val, BL, EMPTY_DB, NC, NR};
use vk::env::{assume, Pool};

pub const HEX: &[u8; 16] = b"0123456789abcdef";

/// canonical (lower-case, hyphenated) text of an id -- what `Uuid::to_string` produces, which is
/// exactly what harness `s_c19_codec_enc` decides for the glue's encoder for all 2^128 ids
pub fn hex36(x: u128) -> Text {
    let mut b = [0u8; 36];
    let mut o = 0;
    let mut i = 0;
    while i < 32 {
        if o == 8 || o == 13 || o == 18 || o == 23 {
            b[o] = b'-';
            o += 1;
        }
        let nib = ((x >> (124 - 4 * i)) & 15) as usize;
        b[o] = HEX[nib];
        o += 1;
        i += 1;
    }
    Text { len: 36, b }
}
pub fn tval(x: u128) -> Val {
    Val::Text(hex36(x))
}
fn nib(c: u8) -> u8 {
    if c >= b'0' && c <= b'9' {
        c - b'0'
    } else if c >= b'a' && c <= b'f' {
        c - b'a' + 10
    } else if c >= b'A' && c <= b'F' {
        c - b'A' + 10
    } else {
        255
    }
}
/// decode a hyphenated or simple (32 hex digits) id text; None for anything else
pub fn unhex(t: &[u8]) -> Option<u128> {
    let hy = t.len() == 36;
    if !(hy || t.len() == 32) {
        return None;
    }
    let mut x: u128 = 0;
    let mut i = 0;
    let mut ok = true;
    while i < 36 {
        if i < t.len() {
            let c = t[i];
            if hy && (i == 8 || i == 13 || i == 18 || i == 23) {
                if c != b'-' {
                    ok = false;
                }
            } else {
                let n = nib(c);
                if n == 255 {
                    ok = false;
                }
                x = (x << 4) | (n & 15) as u128;
            }
        }
        i += 1;
    }
    if ok {
        Some(x)
    } else {
        None
    }
}

/// snapshot timestamps (whole seconds) a stored row may carry: concrete table, symbolic index
pub const TS: [i64; 4] = [0, 1_700_000_000, 1_767_225_630, 4_102_444_800];

#[derive(Clone, Copy, PartialEq, Eq, Debug)]
pub struct SBytes {
    pub len: u8,
    pub b: [u8; BL],
}
pub fn bytes_from_pool(p: &mut Pool) -> SBytes {
    let len = p.u8();
    assume(len as usize <= BL);
    let mut b = [0u8; BL];
    let mut i = 0;
    while i < BL {
        let x = p.u8();
        if i < len as usize {
            b[i] = x;
        }
        i += 1;
    }
    SBytes { len, b }
}
impl SBytes {
    pub fn to_vec(&self) -> Vec<u8> {
        match self.len {
            0 => Vec::new(),
            1 => vec![self.b[0]],
            _ => vec![self.b[0], self.b[1]],
        }
    }
    pub fn val(&self) -> Val {
        Val::Blob(Blob { len: self.len, b: self.b })
    }
    pub fn eq_slice(&self, s: &[u8]) -> bool {
        if s.len() != self.len as usize {
            return false;
        }
        let mut ok = true;
        let mut i = 0;
        while i < BL {
            if i < s.len() && s[i] != self.b[i] {
                ok = false;
            }
            i += 1;
        }
        ok
    }
}

/// The storage contract's view of one client (what `StorageTxn` reads can observe).
#[derive(Clone, Copy, PartialEq, Eq, Debug)]
pub struct AClient {
    pub exists: bool,
    pub latest: u128,
    pub snap: Option<(u128, i64, u32, SBytes)>,
}
#[derive(Clone, Copy, PartialEq, Eq, Debug)]
pub struct AVersion {
    pub vid: u128,
    pub owner: u128,
    pub parent: u128,
    pub data: SBytes,
}
pub const NOVER: AVersion = AVersion { vid: 0, owner: 0, parent: 0, data: SBytes { len: 0, b: [0; BL] } };

/// abstract state = both clients + the versions table in rowid order
#[derive(Clone, Copy, PartialEq, Eq, Debug)]
pub struct AState {
    pub cid: u128,
    pub oid: u128,
    pub c: AClient,
    pub o: AClient,
    pub nv: usize,
    pub v: [AVersion; NR],
}

pub const MAXV: usize = NR - 1;

/// an arbitrary state of the shape the glue writes: ids canonical text, counters integers or
/// NULL, blobs blobs; `versions_since_snapshot` NULL exactly when the snapshot columns are NULL
pub fn any_state(p: &mut Pool, maxv: usize) -> AState {
    let cid = p.u128();
    let oid = p.u128();
    assume(cid != oid);
    let c = any_client(p);
    let o = any_client(p);
    let nv = p.u8() as usize;
    assume(nv <= maxv && maxv <= MAXV);
    let mut v = [NOVER; NR];
    let mut i = 0;
    while i < NR {
        let vid = p.u128();
        let mine = p.bool();
        let parent = p.u128();
        let data = bytes_from_pool(p);
        if i < nv {
            let mut j = 0;
            while j < i {
                assume(v[j].vid != vid);
                j += 1;
            }
            v[i] = AVersion { vid, owner: if mine { cid } else { oid }, parent, data };
        }
        i += 1;
    }
    AState { cid, oid, c, o, nv, v }
}
fn any_client(p: &mut Pool) -> AClient {
    let exists = p.bool();
    let latest = p.u128();
    let has = p.bool();
    let svid = p.u128();
    let tsi = p.u8();
    let since = p.u32();
    let data = bytes_from_pool(p);
    assume(since < 0x7fff_ffff);
    if !exists {
        return AClient { exists: false, latest: 0, snap: None };
    }
    let ts = match tsi & 3 {
        0 => TS[0],
        1 => TS[1],
        2 => TS[2],
        _ => TS[3],
    };
    AClient { exists, latest, snap: if has { Some((svid, ts, since, data)) } else { None } }
}

fn client_row(id: u128, c: &AClient) -> [Val; NC] {
    let mut r = [Val::Null; NC];
    r[0] = tval(id);
    r[1] = tval(c.latest);
    if let Some((v, ts, since, data)) = c.snap {
        r[2] = tval(v);
        r[3] = Val::Int(since as i64);
        r[4] = Val::Int(ts);
        r[5] = data.val();
    }
    r
}

/// concretisation: write the abstract state into the stand-in's tables
/// (table 0 = clients, table 1 = versions: asserted against the generated schema by the harness)
pub fn install(s: &AState) {
    let mut db = EMPTY_DB;
    db.t[0].created = true;
    db.t[1].created = true;
    // the state is a database CREATED BY THE CURRENT SOURCE: its constraints and indexes apply
    db.t[0].cons = rusqlite::CUR_CONS[0];
    db.t[1].cons = rusqlite::CUR_CONS[1];
    db.t[0].idx = rusqlite::CUR_INDEXES[0];
    db.t[1].idx = rusqlite::CUR_INDEXES[1];
    let mut k = 0;
    if s.c.exists {
        db.t[0].used[k] = true;
        db.t[0].rows[k] = client_row(s.cid, &s.c);
        db.t[0].rowid[k] = db.t[0].next_rowid;
        db.t[0].next_rowid += 1;
        k += 1;
    }
    if s.o.exists {
        db.t[0].used[k] = true;
        db.t[0].rows[k] = client_row(s.oid, &s.o);
        db.t[0].rowid[k] = db.t[0].next_rowid;
        db.t[0].next_rowid += 1;
    }
    let mut i = 0;
    while i < NR {
        if i < s.nv {
            let mut r = [Val::Null; NC];
            r[0] = tval(s.v[i].vid);
            r[1] = tval(s.v[i].owner);
            r[2] = tval(s.v[i].parent);
            r[3] = s.v[i].data.val();
            db.t[1].used[i] = true;
            db.t[1].rows[i] = r;
            db.t[1].rowid[i] = db.t[1].next_rowid;
            db.t[1].next_rowid += 1;
        }
        i += 1;
    }
    *rusqlite::db() = db;
}

fn text_id(v: &Val) -> Option<u128> {
    match v {
        Val::Text(t) => {
            if t.len == 36 {
                unhex(&t.b)
            } else {
                None
            }
        }
        _ => None,
    }
}
fn blob_of(v: &Val) -> Option<SBytes> {
    match v {
        Val::Blob(b) => Some(SBytes { len: b.len, b: b.b }),
        _ => None,
    }
}

/// abstraction of one client row; `None` = the row is not of the shape the glue writes
pub fn abs_client(db: &Db, id: u128) -> Option<AClient> {
    let idt = tval(id);
    let mut found = NR;
    let mut count = 0;
    let mut i = 0;
    while i < NR {
        if db.t[0].used[i] && rusqlite::sql_eq(&db.t[0].rows[i][0], &idt) {
            found = i;
            count += 1;
        }
        i += 1;
    }
    if count == 0 {
        return Some(AClient { exists: false, latest: 0, snap: None });
    }
    if count > 1 {
        return None;
    }
    let r = db.t[0].rows[found];
    let latest = text_id(&r[1])?;
    let snap = match (r[2], r[3], r[4], r[5]) {
        (Val::Null, Val::Null, Val::Null, Val::Null) => None,
        (sv, Val::Int(since), Val::Int(ts), data) => {
            if since < 0 || since > u32::MAX as i64 {
                return None;
            }
            Some((text_id(&sv)?, ts, since as u32, blob_of(&data)?))
        }
        _ => return None,
    };
    Some(AClient { exists: true, latest, snap })
}

pub fn abs_state(db: &Db, cid: u128, oid: u128) -> Option<AState> {
    let c = abs_client(db, cid)?;
    let o = abs_client(db, oid)?;
    // versions in rowid order (the stand-in inserts into the first free slot; with no deletes
    // slot order is rowid order, which the harness asserts)
    let mut v = [NOVER; NR];
    let mut nv = 0;
    let mut last = 0;
    let mut i = 0;
    while i < NR {
        if db.t[1].used[i] {
            if i != nv || db.t[1].rowid[i] <= last {
                return None;
            }
            last = db.t[1].rowid[i];
            let r = db.t[1].rows[i];
            v[nv] = AVersion { vid: text_id(&r[0])?, owner: text_id(&r[1])?, parent: text_id(&r[2])?, data: blob_of(&r[3])? };
            nv += 1;
        }
        i += 1;
    }
    Some(AState { cid, oid, c, o, nv, v })
}
