//! The single list of engine S harnesses: (name, unwind bound, scenario).
#[macro_export]
macro_rules! harness_list {
    ($m:ident) => {
        $m!(s_reads, 40, scen::s_reads);
        $m!(s_writes, 40, scen::s_writes);
        $m!(s_exclusive, 40, scen::s_exclusive);
        $m!(s_faults, 40, scen::s_faults);
        $m!(s_blob, 40, scen::s_blob);
        $m!(s_reopen, 40, scen::s_reopen);
        $m!(s_codec_enc, 40, scen::s_codec_enc);
        $m!(s_upgrade, 40, scen::s_upgrade);
    };
}
