//! The single list of engine S harnesses: (name, unwind bound, scenario).
#[macro_export]
macro_rules! harness_list {
    ($m:ident) => {
        $m!(s_reads_client, 40, scen::s_reads::<0>);
        $m!(s_reads_snapdata, 40, scen::s_reads::<1>);
        $m!(s_reads_byparent, 40, scen::s_reads::<2>);
        $m!(s_reads_byid, 40, scen::s_reads::<3>);
        $m!(s_writes_newclient, 40, scen::s_writes::<0>);
        $m!(s_writes_snapshot, 40, scen::s_writes::<1>);
        $m!(s_writes_addversion, 40, scen::s_writes::<2>);
        $m!(s_exclusive, 40, scen::s_exclusive);
        $m!(s_faults, 40, scen::s_faults);
        $m!(s_blob_version, 40, scen::s_blob::<0>);
        $m!(s_blob_snapshot, 40, scen::s_blob::<1>);
        $m!(s_reopen, 40, scen::s_reopen);
        $m!(s_codec_enc, 40, scen::s_codec_enc);
        $m!(s_upgrade_plain, 40, scen::s_upgrade::<0>);
        $m!(s_upgrade_snap, 40, scen::s_upgrade::<1>);
        $m!(s_upgrade_leftover, 40, scen::s_upgrade::<2>);
    };
}
