//! Engine S harness crate: real SQLite glue over the generated relational stand-in.
#![allow(dead_code, unused_variables, unused_imports, static_mut_refs, clippy::all)]

/// the real glue of the current tree, unmodified
#[path = "/repo/sqlite/src/lib.rs"]
pub mod real_sqlite;

/// the glue of the pinned release (the "old writer" of C19)
#[path = "/verif/fixtures/pinned/sqlite_lib.rs"]
pub mod old_sqlite;

#[macro_use]
pub mod harness_list;
pub mod sdb;
pub mod scen;

#[cfg(kani)]
mod proofs;
