//! Engine S harness crate: real SQLite glue over the generated relational stand-in.
#![allow(dead_code, unused_variables, unused_imports, static_mut_refs, clippy::all)]

/// the real glue of the current tree: its text byte for byte (regenerated from /repo on every
/// run by s/gen_glue.py) plus an appended access module, see there
#[path = "gen_real.rs"]
pub mod real_sqlite;

/// the glue of the pinned release (the "old writer" of C19), same construction
#[path = "gen_old.rs"]
pub mod old_sqlite;

#[macro_use]
pub mod harness_list;
pub mod sdb;
pub mod scen;

#[cfg(kani)]
mod proofs;
