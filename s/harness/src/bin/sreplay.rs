//! Native replay of an engine S counterexample: the SAME scenario code as the Kani harness (the
//! real glue text over the relational stand-in) on the draw values Kani's concrete playback
//! recorded. usage: sreplay <harness> <values-file>   (one draw per line: space-separated bytes)
//! Output: lines `KNOWN 0|1`, `FAIL <obligation>`, `COVER <witness>`, `ASSUME_FAILED`,
//! `UNDERFLOW`, `PANIC`.
#[cfg(not(kani))]
fn lookup(name: &str) -> Option<fn(&mut vk::env::Pool)> {
    use vs::scen;
    macro_rules! reg {
        ($n:ident, $u:literal, $f:expr) => {
            if name == stringify!($n) {
                return Some($f as fn(&mut vk::env::Pool));
            }
        };
    }
    vs::harness_list!(reg);
    if name == "s_codec_dec" {
        return Some(scen::s_codec_dec as fn(&mut vk::env::Pool));
    }
    None
}

#[cfg(not(kani))]
fn main() {
    use vk::env::{native, Pool};
    let args: Vec<String> = std::env::args().collect();
    std::panic::set_hook(Box::new(|_| {}));
    let f = match lookup(&args[1]) {
        Some(f) => f,
        None => {
            println!("KNOWN 0");
            return;
        }
    };
    println!("KNOWN 1");
    // the glue creates its data directory: keep that inside a scratch directory
    let dir = std::env::temp_dir().join(format!("sreplay-{}", std::process::id()));
    let _ = std::fs::create_dir_all(&dir);
    let _ = std::env::set_current_dir(&dir);
    if args[2] == "--search" {
        // sreplay <harness> --search <seed> <budget> <obligation>...: generate inputs until one
        // fails one of the named obligations natively; print its draws
        let seed: u64 = args[3].parse().expect("seed");
        let budget: u64 = args[4].parse().expect("budget");
        let wanted: Vec<String> = args[5..].to_vec();
        fn reset_all() {
            rusqlite::reset_for_replay();
            vk::model::reset_globals();
        }
        let mut found = false;
        if let Some((vals, fails)) = native::search(f, seed, budget, &wanted, reset_all) {
            println!("FOUND");
            for v in vals.iter() {
                println!("VALS {}", v.iter().map(|b| b.to_string()).collect::<Vec<_>>().join(" "));
            }
            for s in fails.iter() {
                println!("FAIL {}", s);
            }
            found = true;
        }
        if !found {
            println!("NOTFOUND");
        }
        let _ = std::env::set_current_dir("/");
        let _ = std::fs::remove_dir_all(&dir);
        return;
    }
    let txt = std::fs::read_to_string(&args[2]).expect("values file");
    let vals: Vec<Vec<u8>> = txt
        .lines()
        .map(|l| l.split_whitespace().map(|x| x.parse::<u8>().expect("byte")).collect())
        .collect();
    native::reset();
    let mut pool = Pool::from_vals(vals);
    let r = std::panic::catch_unwind(std::panic::AssertUnwindSafe(|| f(&mut pool)));
    let assume_failed = native::ASSUME_FAILED.with(|x| *x.borrow());
    native::FAILS.with(|x| {
        for s in x.borrow().iter() {
            println!("FAIL {}", s);
        }
    });
    native::COVERS.with(|x| {
        for s in x.borrow().iter() {
            println!("COVER {}", s);
        }
    });
    if assume_failed {
        println!("ASSUME_FAILED");
    }
    if pool.underflow {
        println!("UNDERFLOW");
    }
    if r.is_err() && !assume_failed {
        println!("PANIC");
    }
    let _ = std::env::set_current_dir("/");
    let _ = std::fs::remove_dir_all(&dir);
}

#[cfg(kani)]
fn main() {}
