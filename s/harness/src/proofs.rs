//! Kani proof harnesses of engine S.
use crate::scen;
use vk::env::*;

fn stub_mkdir<P: AsRef<std::path::Path>>(_p: P) -> std::io::Result<()> {
    Ok(())
}
/// ASCII-only view of `from_utf8`: sound for text the glue itself wrote from `Uuid::to_string`
fn stub_from_utf8(v: &[u8]) -> Result<&str, std::str::Utf8Error> {
    let mut i = 0;
    while i < v.len() {
        kani::assume(v[i] < 0x80);
        i += 1;
    }
    Ok(unsafe { std::str::from_utf8_unchecked(v) })
}
/// arithmetic decoder of the hyphenated and simple forms; its agreement with the real parser on
/// every canonical text is what `s_codec_dec` decides
fn stub_parse(s: &str) -> Result<uuid::Uuid, uuid::Error> {
    match crate::sdb::unhex(s.as_bytes()) {
        Some(x) => Ok(uuid::Uuid::from_u128(x)),
        None => {
            // the real parser's error value cannot be built outside the crate; outside the claim:
            // every harness state holds canonical text only
            kani::assume(false);
            unreachable!()
        }
    }
}

macro_rules! harness {
    ($name:ident, $unwind:literal, $f:expr) => {
        #[kani::proof]
        #[kani::unwind($unwind)]
        #[kani::stub(uuid::Uuid::new_v4, stub_new_v4)]
        #[kani::stub(chrono::Utc::now, stub_now)]
        #[kani::stub(alloc::fmt::format, stub_format)]
        #[kani::stub(<anyhow::Error as core::ops::Drop>::drop, stub_anyhow_drop)]
        #[kani::stub(std::backtrace::Backtrace::capture, stub_bt)]
        #[kani::stub(std::fs::create_dir_all, stub_mkdir)]
        #[kani::stub(core::str::from_utf8, stub_from_utf8)]
        #[kani::stub(uuid::Uuid::parse_str, stub_parse)]
        fn $name() {
            let mut p = Pool::symbolic();
            $f(&mut p);
        }
    };
}
crate::harness_list!(harness);

#[kani::proof]
#[kani::unwind(40)]
#[kani::stub(alloc::fmt::format, stub_format)]
#[kani::stub(<anyhow::Error as core::ops::Drop>::drop, stub_anyhow_drop)]
#[kani::stub(std::backtrace::Backtrace::capture, stub_bt)]
#[kani::stub(std::fs::create_dir_all, stub_mkdir)]
#[kani::stub(core::str::from_utf8, stub_from_utf8)]
fn s_codec_dec() {
    let mut p = Pool::symbolic();
    scen::s_codec_dec(&mut p);
}
