//! Engine S scenarios: real glue methods of `sqlite/src/lib.rs` on symbolic database states,
//! compared with the storage contract through the abstraction function of sdb.rs.
use crate::real_sqlite::verif_access::concrete;
use crate::real_sqlite::SqliteStorage;
use crate::sdb::*;
use rusqlite::{mon, Val, NR};
use taskchampion_sync_server_core::{Client, Snapshot, Storage, StorageTxn, Version};
use uuid::Uuid;
use vk::env::{assume, Pool};
use vk::{chk, cov};

fn u(x: u128) -> Uuid {
    Uuid::from_u128(x)
}

/// obligations about HOW the glue used the database that every scenario shares
fn usage_ok() {
    let m = *mon();
    chk!(!m.unmodelled, "inconclusive: the glue issued a statement or value the stand-in does not model");
    chk!(!m.capacity, "inconclusive: model capacity exceeded");
    chk!(!m.schema_mismatch, "inconclusive: schema differs between the included glue versions");
    chk!(!m.bad_params, "s: every statement binds exactly as many parameters as it has placeholders");
    chk!(!m.affinity_hazard, "s: no value is stored where SQLite's column affinity would silently convert it (ids never look numeric)");
    chk!(!m.write_outside_txn, "s: every write statement runs inside the transaction begun by txn()");
}

fn open() -> SqliteStorage {
    match SqliteStorage::new("d") {
        Ok(s) => s,
        Err(e) => {
            std::mem::forget(e);
            chk!(false, "s: opening an existing database succeeds");
            vk::env::assume(false);
            unreachable!()
        }
    }
}

fn snap_of(c: &Client) -> Option<(u128, i64, u32)> {
    c.snapshot.as_ref().map(|s| (s.version_id.as_u128(), s.timestamp.timestamp(), s.versions_since))
}

/// first version of `owner` whose column `by_parent ? parent : vid` equals `key`, in rowid order
fn first_match(s: &AState, owner: u128, key: u128, by_parent: bool) -> usize {
    let mut f = NR;
    let mut i = 0;
    while i < NR {
        if i < s.nv && s.v[i].owner == owner && (if by_parent { s.v[i].parent } else { s.v[i].vid }) == key && f == NR {
            f = i;
        }
        i += 1;
    }
    f
}

/// C13/C09/C18: the four read methods answer exactly what the contract view of THIS client says,
/// whatever rows other clients own (including rows with the same ids), and change nothing.
pub fn s_reads<const WHICH: u8>(p: &mut Pool) {
    let s = any_state(p, MAXV);
    install(&s);
    let pre = *rusqlite::db();
    let st = open();
    let which = WHICH;
    let key = p.u128();
    {
        let mut t = match st.txn(u(s.cid)) {
            Ok(t) => concrete(t),
            Err(e) => {
                std::mem::forget(e);
                chk!(false, "s: txn() on an idle database succeeds");
                return;
            }
        };
        if which == 0 {
            match t.get_client() {
                Ok(None) => chk!(!s.c.exists, "s13: get_client: no row, no client"),
                Ok(Some(c)) => {
                    chk!(s.c.exists && c.latest_version_id.as_u128() == s.c.latest, "s13: get_client returns this client's latest pointer");
                    chk!(snap_of(&c) == s.c.snap.map(|x| (x.0, x.1, x.2)), "s13: get_client returns this client's snapshot id, whole-second timestamp and counter, or none when the columns are NULL");
                    std::mem::forget(c);
                }
                Err(e) => {
                    std::mem::forget(e);
                    chk!(false, "s13: get_client does not fail on a well-formed row");
                }
            }
        } else if which == 1 {
            match t.get_snapshot_data(u(key)) {
                Ok(Some(d)) => {
                    chk!(matches!(s.c.snap, Some((v, _, _, b)) if v == key && b.eq_slice(&d)), "s11: snapshot bytes are returned only together with the matching snapshot id");
                    std::mem::forget(d);
                }
                Ok(None) => chk!(!s.c.exists, "s13: get_snapshot_data: none only without a client row"),
                Err(e) => {
                    std::mem::forget(e);
                    chk!(s.c.exists && !matches!(s.c.snap, Some((v, _, _, _)) if v == key), "s11: get_snapshot_data fails exactly on a missing or mismatching snapshot id");
                }
            }
        } else {
            let by_parent = which == 2;
            let r = if by_parent { t.get_version_by_parent(u(key)) } else { t.get_version(u(key)) };
            let f = first_match(&s, s.cid, key, by_parent);
            match r {
                Ok(None) => chk!(f == NR, "s09: a version lookup finds nothing only if this client owns no matching version"),
                Ok(Some(v)) => {
                    chk!(f != NR, "s09: a version lookup never returns another client's version");
                    if f != NR {
                        let e = s.v[f];
                        chk!(v.version_id.as_u128() == e.vid && v.parent_version_id.as_u128() == e.parent && e.data.eq_slice(&v.history_segment), "s13: the first matching version of this client is returned with its id, parent and bytes");
                    }
                    std::mem::forget(v);
                }
                Err(e) => {
                    std::mem::forget(e);
                    chk!(false, "s13: a version lookup does not fail on well-formed rows");
                }
            }
            if WHICH == 2 {
                // (by id this cannot happen: version_id is the table's primary key)
                cov!(f != NR && first_match(&s, s.oid, key, by_parent) != NR, "s09.cov: both clients own a version with the queried id");
            }
        }
        // dropped without commit
    }
    chk!(*rusqlite::db() == pre, "s18: reads (and the dropped transaction around them) leave the database identical");
    chk!(mon().begins == 1 && mon().commits == 0, "s18: a read-only transaction begins once and never commits");
    usage_ok();
    if WHICH == 0 {
        cov!(s.c.exists && s.c.snap.is_some(), "s13.cov: client with snapshot");
        cov!(s.c.exists && s.c.snap.is_none(), "s13.cov: client without snapshot");
    }
    if WHICH == 1 {
        cov!(matches!(s.c.snap, Some((v, _, _, _)) if v == key), "s11.cov: snapshot data fetched");
    }
    if WHICH >= 2 {
        cov!(first_match(&s, s.cid, key, WHICH == 2) != NR, "s13.cov: version found");
    }
    std::mem::forget(st);
}

/// C13/C02/C07/C12: add_version stores exactly (id, client, parent, blob), moves latest, bumps the
/// counter (NULL + 1 = NULL without a snapshot), touches no other row; new_client and set_snapshot
/// likewise; commit persists, drop rolls back.
pub fn s_writes<const WHICH: u8>(p: &mut Pool) {
    let s = any_state(p, MAXV - 1);
    install(&s);
    let pre = *rusqlite::db();
    let st = open();
    let which = WHICH;
    let a = p.u128();
    let b = p.u128();
    let data = bytes_from_pool(p);
    let tsi = p.u8();
    let since = p.u32();
    let do_commit = p.bool();
    assume(since < 0x7fff_ffff);
    let ts = match tsi & 3 {
        0 => TS[0],
        1 => TS[1],
        2 => TS[2],
        _ => TS[3],
    };
    // documented preconditions of the contract
    if which == 0 {
        assume(!s.c.exists);
    } else {
        assume(s.c.exists);
    }
    if which == 2 {
        let mut i = 0;
        while i < NR {
            if i < s.nv {
                assume(s.v[i].vid != a);
            }
            i += 1;
        }
    }
    let mut ok = true;
    {
        let mut t = match st.txn(u(s.cid)) {
            Ok(t) => concrete(t),
            Err(e) => {
                std::mem::forget(e);
                chk!(false, "s: txn() on an idle database succeeds");
                return;
            }
        };
        let r = if which == 0 {
            t.new_client(u(a))
        } else if which == 1 {
            t.set_snapshot(Snapshot { version_id: u(a), timestamp: chrono::DateTime::from_timestamp(ts, 0).unwrap(), versions_since: since }, data.to_vec())
        } else {
            t.add_version(u(a), u(b), data.to_vec())
        };
        if let Err(e) = r {
            std::mem::forget(e);
            ok = false;
        }
        chk!(ok, "s13: a write within its documented preconditions succeeds");
        if do_commit {
            if let Err(e) = t.commit() {
                std::mem::forget(e);
                chk!(false, "s13: commit succeeds");
            }
        }
    }
    let post = *rusqlite::db();
    if !do_commit {
        chk!(post == pre, "s04: a transaction dropped without commit leaves the database unchanged");
        chk!(mon().rollbacks_on_drop == 1, "s04: the uncommitted transaction is rolled back when its connection closes");
    } else {
        chk!(mon().commits == 1, "s04: commit() issues exactly one COMMIT");
        let mut e = s;
        if which == 0 {
            e.c = AClient { exists: true, latest: a, snap: None };
        } else if which == 1 {
            e.c.snap = Some((a, ts, since, data));
        } else {
            e.v[s.nv] = AVersion { vid: a, owner: s.cid, parent: b, data };
            e.nv = s.nv + 1;
            e.c.latest = a;
            if let Some(sn) = e.c.snap.as_mut() {
                sn.2 += 1;
            }
        }
        match abs_state(&post, s.cid, s.oid) {
            None => chk!(false, "s13: after a write every row still has the shape the glue writes (text ids, integer counters, blobs)"),
            Some(got) => {
                chk!(got.c == e.c, "s13: this client's row is exactly what the contract prescribes (latest moved, counter bumped once / reset, snapshot columns set together)");
                chk!(got.o == e.o, "s09: the other client's row is untouched");
                chk!(got.nv == e.nv && got.v == e.v, "s07: existing versions are untouched and at most the one new row (id, client, parent, bytes) is appended");
            }
        }
    }
    chk!(mon().begins == 1, "s03: one BEGIN per transaction");
    usage_ok();
    if WHICH == 2 {
        cov!(do_commit && s.c.snap.is_some(), "s12.cov: add_version with a snapshot (counter bumped)");
        cov!(do_commit && s.c.snap.is_none(), "s12.cov: add_version without a snapshot (NULL counter)");
    }
    if WHICH == 1 {
        cov!(do_commit && s.c.snap.is_some(), "s11.cov: snapshot replaced");
    }
    if WHICH == 0 {
        cov!(do_commit, "s13.cov: client created");
    }
    cov!(!do_commit, "s04.cov: rolled back");
    std::mem::forget(st);
}

/// C03/C04: txn() begins an IMMEDIATE/EXCLUSIVE transaction on a fresh connection before
/// anything else; a second transaction cannot exist while one is alive (any storage object on the
/// same directory); the pragmas issued at open keep SQLite's durability guarantees.
pub fn s_exclusive(p: &mut Pool) {
    let s = any_state(p, 1);
    install(&s);
    let st = open();
    chk!(!mon().unsafe_pragma, "s04: no pragma that weakens atomic commit or durability (synchronous=OFF, journal_mode=OFF/MEMORY, ...)");
    chk!(mon().begins == 0, "s03: opening the storage starts no transaction");
    let t1 = st.txn(u(s.cid)).map(concrete);
    chk!(t1.is_ok(), "s03: txn() on an idle database succeeds");
    chk!(mon().begins == 1 && !mon().begin_deferred, "s03: txn() begins an IMMEDIATE or EXCLUSIVE transaction (a deferred one lets two requests read the same latest)");
    // a second request, through a second storage object on the same directory
    let st2 = open();
    let other = if p.bool() { s.cid } else { s.oid };
    let t2 = st2.txn(u(other));
    chk!(t2.is_err(), "s03: while a transaction is alive no second one can begin (it waits for the lock, here: busy)");
    chk!(mon().busy, "s03: the second BEGIN was refused by the write lock");
    std::mem::forget(t2);
    drop(t1);
    let t3 = st2.txn(u(other)).map(concrete);
    chk!(t3.is_ok(), "s03: once the first transaction is dropped the lock is free again");
    usage_ok();
    std::mem::forget(t3);
    std::mem::forget(st);
    std::mem::forget(st2);
}

/// C05 (glue level): every rusqlite call of a (txn, write, commit) sequence fails in turn: the
/// method reports an error and, once the transaction object is dropped, the database is unchanged
/// (or fully changed if the failure came after COMMIT).
pub fn s_faults(p: &mut Pool) {
    let s = any_state(p, MAXV - 1);
    install(&s);
    let pre = *rusqlite::db();
    let st = open();
    assume(s.c.exists);
    let a = p.u128();
    let b = p.u128();
    let data = bytes_from_pool(p);
    let mut i = 0;
    while i < NR {
        if i < s.nv {
            assume(s.v[i].vid != a);
        }
        i += 1;
    }
    let f = p.u8();
    assume(f >= 1 && f <= 6);
    let base = mon().calls;
    unsafe {
        rusqlite::FAULT_AT = base + f as u16;
    }
    let mut failed = false;
    let mut committed = false;
    match st.txn(u(s.cid)) {
        Err(e) => {
            std::mem::forget(e);
            failed = true;
        }
        Ok(t) => {
            let mut t = concrete(t);
            match t.add_version(u(a), u(b), data.to_vec()) {
                Err(e) => {
                    std::mem::forget(e);
                    failed = true;
                }
                Ok(()) => match t.commit() {
                    Err(e) => {
                        std::mem::forget(e);
                        failed = true;
                    }
                    Ok(()) => committed = true,
                },
            }
        }
    }
    let fired = mon().faults_fired > 0;
    chk!(fired == failed, "s05: a failing database call makes the glue method return an error, and nothing else does");
    let post = *rusqlite::db();
    if !committed {
        chk!(post == pre, "s05: after a failed step and the drop of the transaction the database is unchanged");
    }
    chk!(unsafe { rusqlite::WRITER } == rusqlite::MAXCONN, "s05: the write lock is released after a failure");
    usage_ok();
    cov!(fired && mon().calls - base >= 3, "s05.cov: failure inside add_version's statements");
    cov!(!fired && committed, "s05.cov: fault index beyond the sequence");
    std::mem::forget(st);
}

/// C06 (glue level): payload and snapshot bytes are bound as BLOBs, stored in BLOB cells and read
/// back byte for byte (symbolic bytes: 0x00, 0xFF, ASCII digits, invalid UTF-8 are all in range).
pub fn s_blob<const WHICH: u8>(p: &mut Pool) {
    let s = any_state(p, 0);
    install(&s);
    assume(s.c.exists);
    let st = open();
    let a = p.u128();
    let b = p.u128();
    let data = bytes_from_pool(p);
    let mut t = concrete(st.txn(u(s.cid)).unwrap());
    // (split by operation pair: all four glue calls in one harness did not finish in 25 min)
    if WHICH == 0 {
        chk!(t.add_version(u(a), u(b), data.to_vec()).is_ok(), "s06: add_version");
        let db = *rusqlite::db();
        chk!(matches!(db.t[1].rows[0][3], Val::Blob(_)), "s06: the payload is stored as a BLOB cell (not text, which affinity could alter)");
        match t.get_version_by_parent(u(b)) {
            Ok(Some(v)) => {
                chk!(data.eq_slice(&v.history_segment) && v.version_id.as_u128() == a && v.parent_version_id.as_u128() == b, "s06: the version comes back byte for byte with its ids");
                std::mem::forget(v);
            }
            _ => chk!(false, "s06: the version is found by its parent"),
        }
    } else {
        chk!(t.set_snapshot(Snapshot { version_id: u(a), timestamp: chrono::DateTime::from_timestamp(TS[1], 0).unwrap(), versions_since: 0 }, data.to_vec()).is_ok(), "s06: set_snapshot");
        match t.get_snapshot_data(u(a)) {
            Ok(Some(d)) => {
                chk!(data.eq_slice(&d), "s06: the snapshot comes back byte for byte");
                std::mem::forget(d);
            }
            _ => chk!(false, "s06: the snapshot is found"),
        }
    }
    usage_ok();
    cov!(data.len == 2 && data.b[0] == b'1' && data.b[1] == b'2', "s06.cov: payload that looks numeric");
    cov!(data.len == 2 && data.b[0] == 0xff && data.b[1] == 0, "s06.cov: invalid UTF-8 with NUL");
    std::mem::forget(t);
    std::mem::forget(st);
}

/// C13 (reopen): dropping the storage object and opening the directory again between two
/// operations changes neither the database nor a later answer.
pub fn s_reopen(p: &mut Pool) {
    let s = any_state(p, MAXV - 1);
    install(&s);
    assume(s.c.exists);
    let a = p.u128();
    let b = p.u128();
    let data = bytes_from_pool(p);
    let mut i = 0;
    while i < NR {
        if i < s.nv {
            assume(s.v[i].vid != a);
        }
        i += 1;
    }
    let st = open();
    {
        let mut t = concrete(st.txn(u(s.cid)).unwrap());
        chk!(t.add_version(u(a), u(b), data.to_vec()).is_ok(), "s13: add_version");
        chk!(t.commit().is_ok(), "s13: commit");
    }
    let before = *rusqlite::db();
    // the storage object is dropped and the directory opened again (always: a symbolic choice
    // between the old and the new object is a pointer if-then-else, which CBMC did not get through
    // in 25 min; the not-reopened case is what every other harness checks)
    drop(st);
    let st2 = open();
    chk!(*rusqlite::db() == before, "s13: reopening (journal pragma and CREATE ... IF NOT EXISTS re-run) does not change the database");
    let mut t = concrete(st2.txn(u(s.cid)).unwrap());
    match t.get_client() {
        Ok(Some(c)) => {
            chk!(c.latest_version_id.as_u128() == a, "s13: after a reopen the latest pointer is the committed one");
            std::mem::forget(c);
        }
        _ => chk!(false, "s13: client readable after reopen"),
    }
    usage_ok();
    cov!(s.nv > 0, "s13.cov: reopened a database that holds earlier versions");
    std::mem::forget(t);
    std::mem::forget(st2);
}

/// C19 (codec, encoder half, ALL 2^128 ids): the text the CURRENT glue binds for an id is the
/// canonical lower-case hyphenated form, digit for digit, and so does the pinned glue.
pub fn s_codec_enc(p: &mut Pool) {
    let s = any_state(p, 0);
    let mut s = s;
    s.c.exists = false;
    s.o.exists = false;
    install(&s);
    let x = p.u128();
    let old = p.bool();
    if old {
        let st = crate::old_sqlite::SqliteStorage::new("d").unwrap();
        let mut t = crate::old_sqlite::verif_access::concrete(st.txn(u(s.cid)).unwrap());
        chk!(t.new_client(u(x)).is_ok(), "s19: new_client (pinned glue)");
        std::mem::forget(t);
        std::mem::forget(st);
    } else {
        let st = open();
        let mut t = concrete(st.txn(u(s.cid)).unwrap());
        chk!(t.new_client(u(x)).is_ok(), "s19: new_client (current glue)");
        std::mem::forget(t);
        std::mem::forget(st);
    }
    let r = rusqlite::db().t[0].rows[0];
    chk!(r[0] == tval(s.cid) && r[1] == tval(x), "s19: ids are written as 36-byte lower-case hyphenated text, digit for digit, by the current and by the pinned glue");
    usage_ok();
    cov!(old, "s19.cov: pinned writer");
    cov!(!old, "s19.cov: current writer");
}

/// C19 (decoder half): the REAL `Uuid::parse_str` (not the arithmetic stub) reads back every
/// canonical text the glue wrote. Harness-level stub: ASCII-only `from_utf8`.
pub fn s_codec_dec(p: &mut Pool) {
    let mut s = any_state(p, 0);
    s.o.exists = false;
    s.c = AClient { exists: true, latest: p.u128(), snap: None };
    install(&s);
    let st = open();
    let mut t = concrete(st.txn(u(s.cid)).unwrap());
    match t.get_client() {
        Ok(Some(c)) => {
            chk!(c.latest_version_id.as_u128() == s.c.latest, "s19: the current glue reads back every canonical id text as the same id");
            std::mem::forget(c);
        }
        _ => chk!(false, "s19: a canonical id text always decodes"),
    }
    std::mem::forget(t);
    std::mem::forget(st);
}

/// C19 (upgrade): content written through the PINNED glue (including a transaction left
/// uncommitted) is read back unchanged by the CURRENT glue, and the chain can be extended.
/// `MODE` splits the scenario (all of it in one harness did not finish in an hour):
/// 0 = plain (version chain written by the pinned glue, read and EXTENDED by the current glue),
/// 1 = snapshot (metadata and bytes written by the pinned glue, read by the current glue),
/// 2 = crash leftover (an uncommitted write of the pinned glue is absent for the current glue).
pub fn s_upgrade<const MODE: u8>(p: &mut Pool) {
    let mut s = any_state(p, 0);
    s.c.exists = false;
    s.o.exists = false;
    // a never-used directory: the old code creates the schema
    *rusqlite::db() = rusqlite::EMPTY_DB;
    let v1 = p.u128();
    let v2 = p.u128();
    let p1 = p.u128();
    let d1 = bytes_from_pool(p);
    let d2 = bytes_from_pool(p);
    let sd = bytes_from_pool(p);
    let with_snap = MODE == 1;
    let leftover = MODE == 2;
    assume(v1 != v2);
    {
        let old = crate::old_sqlite::SqliteStorage::new("d").unwrap();
        let mut t = crate::old_sqlite::verif_access::concrete(old.txn(u(s.cid)).unwrap());
        t.new_client(Uuid::nil()).unwrap();
        t.add_version(u(v1), u(p1), d1.to_vec()).unwrap();
        if with_snap {
            t.set_snapshot(Snapshot { version_id: u(v1), timestamp: chrono::DateTime::from_timestamp(TS[2], 0).unwrap(), versions_since: 0 }, sd.to_vec()).unwrap();
        }
        t.commit().unwrap();
        drop(t);
        if leftover {
            // crash leftover at transaction level: a write that was never committed
            let mut t = crate::old_sqlite::verif_access::concrete(old.txn(u(s.cid)).unwrap());
            t.add_version(u(v2), u(v1), d2.to_vec()).unwrap();
            drop(t);
        }
        std::mem::forget(old);
    }
    let st = open();
    let mut t = concrete(st.txn(u(s.cid)).unwrap());
    match t.get_client() {
        Ok(Some(c)) => {
            chk!(c.latest_version_id.as_u128() == v1, "s19: the latest pointer written by the pinned release is served");
            chk!(snap_of(&c) == if with_snap { Some((v1, TS[2], 1 - 1)) } else { None }, "s19: the snapshot metadata written by the pinned release is served");
            std::mem::forget(c);
        }
        _ => chk!(false, "s19: the client written by the pinned release is found"),
    }
    if MODE == 0 {
        match t.get_version_by_parent(u(p1)) {
            Ok(Some(v)) => {
                chk!(v.version_id.as_u128() == v1 && d1.eq_slice(&v.history_segment), "s19: version and payload written by the pinned release are served");
                std::mem::forget(v);
            }
            _ => chk!(false, "s19: the version written by the pinned release is found"),
        }
        chk!(t.add_version(u(v2), u(v1), d2.to_vec()).is_ok(), "s19: new versions can be appended to the old chain");
        chk!(t.commit().is_ok(), "s19: commit after upgrade");
    }
    if MODE == 1 {
        match t.get_snapshot_data(u(v1)) {
            Ok(Some(d)) => {
                chk!(sd.eq_slice(&d), "s19: snapshot bytes written by the pinned release are served");
                std::mem::forget(d);
            }
            _ => chk!(false, "s19: the snapshot written by the pinned release is found"),
        }
    }
    if MODE == 2 {
        chk!(matches!(t.get_version(u(v2)), Ok(None)), "s19: the uncommitted leftover is absent");
    }
    usage_ok();
    cov!(true, "s19.cov: upgrade scenario ran to its end");
    std::mem::forget(t);
    std::mem::forget(st);
}
