//! Tihs crate implements a SQLite storage backend for the TaskChampion sync server.
use anyhow::Context;
use chrono::{TimeZone, Utc};
use rusqlite::types::{FromSql, ToSql};
use rusqlite::{params, Connection, OptionalExtension};
use std::path::Path;
use taskchampion_sync_server_core::{Client, Snapshot, Storage, StorageTxn, Version};
use uuid::Uuid;

/// Newtype to allow implementing `FromSql` for foreign `uuid::Uuid`
struct StoredUuid(Uuid);

/// Conversion from Uuid stored as a string (rusqlite's uuid feature stores as binary blob)
impl FromSql for StoredUuid {
    fn column_result(value: rusqlite::types::ValueRef<'_>) -> rusqlite::types::FromSqlResult<Self> {
        let u = Uuid::parse_str(value.as_str()?)
            .map_err(|_| rusqlite::types::FromSqlError::InvalidType)?;
        Ok(StoredUuid(u))
    }
}

/// Store Uuid as string in database
impl ToSql for StoredUuid {
    fn to_sql(&self) -> rusqlite::Result<rusqlite::types::ToSqlOutput<'_>> {
        let s = self.0.to_string();
        Ok(s.into())
    }
}

/// An on-disk storage backend which uses SQLite.
///
/// A new connection is opened for each transaction, and only one transaction may be active at a
/// time; a second call to `txn` will block until the first transaction is dropped.
pub struct SqliteStorage {
    db_file: std::path::PathBuf,
}

impl SqliteStorage {
    fn new_connection(&self) -> anyhow::Result<Connection> {
        Ok(Connection::open(&self.db_file)?)
    }

    /// Create a new instance using a database at the given directory.
    ///
    /// The database will be stored in a file named `taskchampion-sync-server.sqlite3` in the given
    /// directory.
    pub fn new<P: AsRef<Path>>(directory: P) -> anyhow::Result<SqliteStorage> {
        std::fs::create_dir_all(&directory)
            .with_context(|| format!("Failed to create `{}`.", directory.as_ref().display()))?;
        let db_file = directory.as_ref().join("taskchampion-sync-server.sqlite3");

        let o = SqliteStorage { db_file };

        let con = o.new_connection()?;

        // Use the modern WAL mode.
        con.query_row("PRAGMA journal_mode=WAL", [], |_row| Ok(()))
            .context("Setting journal_mode=WAL")?;

        let queries = vec![
                "CREATE TABLE IF NOT EXISTS clients (
                    client_id STRING PRIMARY KEY,
                    latest_version_id STRING,
                    snapshot_version_id STRING,
                    versions_since_snapshot INTEGER,
                    snapshot_timestamp INTEGER,
                    snapshot BLOB);",
                "CREATE TABLE IF NOT EXISTS versions (version_id STRING PRIMARY KEY, client_id STRING, parent_version_id STRING, history_segment BLOB);",
                "CREATE INDEX IF NOT EXISTS versions_by_parent ON versions (parent_version_id);",
            ];
        for q in queries {
            con.execute(q, [])
                .context("Error while creating SQLite tables")?;
        }

        Ok(o)
    }
}

impl Storage for SqliteStorage {
    fn txn(&self, client_id: Uuid) -> anyhow::Result<Box<dyn StorageTxn + '_>> {
        let con = self.new_connection()?;
        // Begin the transaction on this new connection. An IMMEDIATE connection is in
        // write (exclusive) mode from the start.
        con.execute("BEGIN IMMEDIATE", [])?;
        let txn = Txn { con, client_id };
        Ok(Box::new(txn))
    }
}

struct Txn {
    // SQLite only allows one concurrent transaction per connection, and rusqlite emulates
    // transactions by running `BEGIN ...` and `COMMIT` at appropriate times. So we will do
    // the same.
    con: Connection,
    client_id: Uuid,
}

impl Txn {
    /// Implementation for queries from the versions table
    fn get_version_impl(
        &mut self,
        query: &'static str,
        client_id: Uuid,
        version_id_arg: Uuid,
    ) -> anyhow::Result<Option<Version>> {
        let r = self
            .con
            .query_row(
                query,
                params![&StoredUuid(version_id_arg), &StoredUuid(client_id)],
                |r| {
                    let version_id: StoredUuid = r.get("version_id")?;
                    let parent_version_id: StoredUuid = r.get("parent_version_id")?;

                    Ok(Version {
                        version_id: version_id.0,
                        parent_version_id: parent_version_id.0,
                        history_segment: r.get("history_segment")?,
                    })
                },
            )
            .optional()
            .context("Error getting version")?;
        Ok(r)
    }
}

impl StorageTxn for Txn {
    fn get_client(&mut self) -> anyhow::Result<Option<Client>> {
        let result: Option<Client> = self
            .con
            .query_row(
                "SELECT
                    latest_version_id,
                    snapshot_timestamp,
                    versions_since_snapshot,
                    snapshot_version_id
                 FROM clients
                 WHERE client_id = ?
                 LIMIT 1",
                [&StoredUuid(self.client_id)],
                |r| {
                    let latest_version_id: StoredUuid = r.get(0)?;
                    let snapshot_timestamp: Option<i64> = r.get(1)?;
                    let versions_since_snapshot: Option<u32> = r.get(2)?;
                    let snapshot_version_id: Option<StoredUuid> = r.get(3)?;

                    // if all of the relevant fields are non-NULL, return a snapshot
                    let snapshot = match (
                        snapshot_timestamp,
                        versions_since_snapshot,
                        snapshot_version_id,
                    ) {
                        (Some(ts), Some(vs), Some(v)) => Some(Snapshot {
                            version_id: v.0,
                            timestamp: Utc.timestamp_opt(ts, 0).unwrap(),
                            versions_since: vs,
                        }),
                        _ => None,
                    };
                    Ok(Client {
                        latest_version_id: latest_version_id.0,
                        snapshot,
                    })
                },
            )
            .optional()
            .context("Error getting client")?;

        Ok(result)
    }

    fn new_client(&mut self, latest_version_id: Uuid) -> anyhow::Result<()> {
        self.con
            .execute(
                "INSERT OR REPLACE INTO clients (client_id, latest_version_id) VALUES (?, ?)",
                params![&StoredUuid(self.client_id), &StoredUuid(latest_version_id)],
            )
            .context("Error creating/updating client")?;
        Ok(())
    }

    fn set_snapshot(&mut self, snapshot: Snapshot, data: Vec<u8>) -> anyhow::Result<()> {
        self.con
            .execute(
                "UPDATE clients
             SET
               snapshot_version_id = ?,
               snapshot_timestamp = ?,
               versions_since_snapshot = ?,
               snapshot = ?
             WHERE client_id = ?",
                params![
                    &StoredUuid(snapshot.version_id),
                    snapshot.timestamp.timestamp(),
                    snapshot.versions_since,
                    data,
                    &StoredUuid(self.client_id),
                ],
            )
            .context("Error creating/updating snapshot")?;
        Ok(())
    }

    fn get_snapshot_data(&mut self, version_id: Uuid) -> anyhow::Result<Option<Vec<u8>>> {
        let r = self
            .con
            .query_row(
                "SELECT snapshot, snapshot_version_id FROM clients WHERE client_id = ?",
                params![&StoredUuid(self.client_id)],
                |r| {
                    let v: StoredUuid = r.get("snapshot_version_id")?;
                    let d: Vec<u8> = r.get("snapshot")?;
                    Ok((v.0, d))
                },
            )
            .optional()
            .context("Error getting snapshot")?;
        r.map(|(v, d)| {
            if v != version_id {
                return Err(anyhow::anyhow!("unexpected snapshot_version_id"));
            }

            Ok(d)
        })
        .transpose()
    }

    fn get_version_by_parent(
        &mut self,

        parent_version_id: Uuid,
    ) -> anyhow::Result<Option<Version>> {
        self.get_version_impl(
            "SELECT version_id, parent_version_id, history_segment FROM versions WHERE parent_version_id = ? AND client_id = ?",
            self.client_id,
            parent_version_id)
    }

    fn get_version(&mut self, version_id: Uuid) -> anyhow::Result<Option<Version>> {
        self.get_version_impl(
            "SELECT version_id, parent_version_id, history_segment FROM versions WHERE version_id = ? AND client_id = ?",
            self.client_id,
            version_id)
    }

    fn add_version(
        &mut self,

        version_id: Uuid,
        parent_version_id: Uuid,
        history_segment: Vec<u8>,
    ) -> anyhow::Result<()> {
        self.con.execute(
            "INSERT INTO versions (version_id, client_id, parent_version_id, history_segment) VALUES(?, ?, ?, ?)",
            params![
                StoredUuid(version_id),
                StoredUuid(self.client_id),
                StoredUuid(parent_version_id),
                history_segment
            ]
        )
        .context("Error adding version")?;
        self.con
            .execute(
                "UPDATE clients
             SET
               latest_version_id = ?,
               versions_since_snapshot = versions_since_snapshot + 1
             WHERE client_id = ?",
                params![StoredUuid(version_id), StoredUuid(self.client_id),],
            )
            .context("Error updating client for new version")?;

        Ok(())
    }

    fn commit(&mut self) -> anyhow::Result<()> {
        self.con.execute("COMMIT", [])?;
        Ok(())
    }
}

#[cfg(test)]
mod test {
    use super::*;
    use chrono::DateTime;
    use pretty_assertions::assert_eq;
    use tempfile::TempDir;

    #[test]
    fn test_emtpy_dir() -> anyhow::Result<()> {
        let tmp_dir = TempDir::new()?;
        let non_existant = tmp_dir.path().join("subdir");
        let storage = SqliteStorage::new(non_existant)?;
        let client_id = Uuid::new_v4();
        let mut txn = storage.txn(client_id)?;
        let maybe_client = txn.get_client()?;
        assert!(maybe_client.is_none());
        Ok(())
    }

    #[test]
    fn test_get_client_empty() -> anyhow::Result<()> {
        let tmp_dir = TempDir::new()?;
        let storage = SqliteStorage::new(tmp_dir.path())?;
        let client_id = Uuid::new_v4();
        let mut txn = storage.txn(client_id)?;
        let maybe_client = txn.get_client()?;
        assert!(maybe_client.is_none());
        Ok(())
    }

    #[test]
    fn test_client_storage() -> anyhow::Result<()> {
        let tmp_dir = TempDir::new()?;
        let storage = SqliteStorage::new(tmp_dir.path())?;
        let client_id = Uuid::new_v4();
        let mut txn = storage.txn(client_id)?;

        let latest_version_id = Uuid::new_v4();
        txn.new_client(latest_version_id)?;

        let client = txn.get_client()?.unwrap();
        assert_eq!(client.latest_version_id, latest_version_id);
        assert!(client.snapshot.is_none());

        let latest_version_id = Uuid::new_v4();
        txn.add_version(latest_version_id, Uuid::new_v4(), vec![1, 1])?;

        let client = txn.get_client()?.unwrap();
        assert_eq!(client.latest_version_id, latest_version_id);
        assert!(client.snapshot.is_none());

        let snap = Snapshot {
            version_id: Uuid::new_v4(),
            timestamp: "2014-11-28T12:00:09Z".parse::<DateTime<Utc>>().unwrap(),
            versions_since: 4,
        };
        txn.set_snapshot(snap.clone(), vec![1, 2, 3])?;

        let client = txn.get_client()?.unwrap();
        assert_eq!(client.latest_version_id, latest_version_id);
        assert_eq!(client.snapshot.unwrap(), snap);

        Ok(())
    }

    #[test]
    fn test_gvbp_empty() -> anyhow::Result<()> {
        let tmp_dir = TempDir::new()?;
        let storage = SqliteStorage::new(tmp_dir.path())?;
        let client_id = Uuid::new_v4();
        let mut txn = storage.txn(client_id)?;
        let maybe_version = txn.get_version_by_parent(Uuid::new_v4())?;
        assert!(maybe_version.is_none());
        Ok(())
    }

    #[test]
    fn test_add_version_and_get_version() -> anyhow::Result<()> {
        let tmp_dir = TempDir::new()?;
        let storage = SqliteStorage::new(tmp_dir.path())?;
        let client_id = Uuid::new_v4();
        let mut txn = storage.txn(client_id)?;

        let version_id = Uuid::new_v4();
        let parent_version_id = Uuid::new_v4();
        let history_segment = b"abc".to_vec();
        txn.add_version(version_id, parent_version_id, history_segment.clone())?;

        let expected = Version {
            version_id,
            parent_version_id,
            history_segment,
        };

        let version = txn.get_version_by_parent(parent_version_id)?.unwrap();
        assert_eq!(version, expected);

        let version = txn.get_version(version_id)?.unwrap();
        assert_eq!(version, expected);

        Ok(())
    }

    #[test]
    fn test_add_version_exists() -> anyhow::Result<()> {
        let tmp_dir = TempDir::new()?;
        let storage = SqliteStorage::new(tmp_dir.path())?;
        let client_id = Uuid::new_v4();
        let mut txn = storage.txn(client_id)?;

        let version_id = Uuid::new_v4();
        let parent_version_id = Uuid::new_v4();
        let history_segment = b"abc".to_vec();
        txn.add_version(version_id, parent_version_id, history_segment.clone())?;
        assert!(txn
            .add_version(version_id, parent_version_id, history_segment.clone())
            .is_err());
        Ok(())
    }

    #[test]
    fn test_snapshots() -> anyhow::Result<()> {
        let tmp_dir = TempDir::new()?;
        let storage = SqliteStorage::new(tmp_dir.path())?;
        let client_id = Uuid::new_v4();
        let mut txn = storage.txn(client_id)?;

        txn.new_client(Uuid::new_v4())?;
        assert!(txn.get_client()?.unwrap().snapshot.is_none());

        let snap = Snapshot {
            version_id: Uuid::new_v4(),
            timestamp: "2013-10-08T12:00:09Z".parse::<DateTime<Utc>>().unwrap(),
            versions_since: 3,
        };
        txn.set_snapshot(snap.clone(), vec![9, 8, 9])?;

        assert_eq!(
            txn.get_snapshot_data(snap.version_id)?.unwrap(),
            vec![9, 8, 9]
        );
        assert_eq!(txn.get_client()?.unwrap().snapshot, Some(snap));

        let snap2 = Snapshot {
            version_id: Uuid::new_v4(),
            timestamp: "2014-11-28T12:00:09Z".parse::<DateTime<Utc>>().unwrap(),
            versions_since: 10,
        };
        txn.set_snapshot(snap2.clone(), vec![0, 2, 4, 6])?;

        assert_eq!(
            txn.get_snapshot_data(snap2.version_id)?.unwrap(),
            vec![0, 2, 4, 6]
        );
        assert_eq!(txn.get_client()?.unwrap().snapshot, Some(snap2));

        // check that mismatched version is detected
        assert!(txn.get_snapshot_data(Uuid::new_v4()).is_err());

        Ok(())
    }
}


// ---- appended by /verif/s/gen_glue.py (not part of the repository source) ----
pub mod verif_access {
    use super::*;
    /// the concrete transaction object behind the `Box<dyn StorageTxn>` of `SqliteStorage::txn`
    pub struct CTxn(Box<Txn>);
    pub fn concrete(b: Box<dyn StorageTxn + '_>) -> CTxn {
        // SAFETY: `SqliteStorage::txn` only ever boxes a `Txn`
        CTxn(unsafe { Box::from_raw(Box::into_raw(b) as *mut Txn) })
    }
    impl StorageTxn for CTxn {
        fn get_client(&mut self) -> anyhow::Result<Option<Client>> {
            self.0.get_client()
        }
        fn new_client(&mut self, latest_version_id: Uuid) -> anyhow::Result<()> {
            self.0.new_client(latest_version_id)
        }
        fn set_snapshot(&mut self, snapshot: Snapshot, data: Vec<u8>) -> anyhow::Result<()> {
            self.0.set_snapshot(snapshot, data)
        }
        fn get_snapshot_data(&mut self, version_id: Uuid) -> anyhow::Result<Option<Vec<u8>>> {
            self.0.get_snapshot_data(version_id)
        }
        fn get_version_by_parent(&mut self, parent_version_id: Uuid) -> anyhow::Result<Option<Version>> {
            self.0.get_version_by_parent(parent_version_id)
        }
        fn get_version(&mut self, version_id: Uuid) -> anyhow::Result<Option<Version>> {
            self.0.get_version(version_id)
        }
        fn add_version(&mut self, version_id: Uuid, parent_version_id: Uuid, history_segment: Vec<u8>) -> anyhow::Result<()> {
            self.0.add_version(version_id, parent_version_id, history_segment)
        }
        fn commit(&mut self) -> anyhow::Result<()> {
            self.0.commit()
        }
    }
}
