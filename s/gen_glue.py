#!/usr/bin/env python3
"""Make the harness-side copy of a sqlite glue source file: the ORIGINAL TEXT, byte for byte,
followed by an appended child module `verif_access` (child modules see private items). The child
module only converts the `Box<dyn StorageTxn>` returned by the REAL `txn()` into its concrete
`Txn` (dropping the vtable), so that CBMC sees static calls and a static drop instead of a
function-pointer drop it resolves against every drop glue of the program.
usage: gen_glue.py <source> <out>"""
import sys

ACCESS = r'''

// ---- appended by /verif/s/gen_glue.py (not part of the repository source) ----
pub mod verif_access {
    use super::*;
    /// the concrete transaction object behind the `Box<dyn StorageTxn>` of `SqliteStorage::txn`
    pub struct CTxn(Box<Txn>);
    pub fn concrete(b: Box<dyn StorageTxn + '_>) -> CTxn {
        // SAFETY: `SqliteStorage::txn` only ever boxes a `Txn`
        CTxn(unsafe { Box::from_raw(Box::into_raw(b) as *mut Txn) })
    }
    impl StorageTxn for CTxn {
        fn get_client(&mut self) -> anyhow::Result<Option<Client>> {
            self.0.get_client()
        }
        fn new_client(&mut self, latest_version_id: Uuid) -> anyhow::Result<()> {
            self.0.new_client(latest_version_id)
        }
        fn set_snapshot(&mut self, snapshot: Snapshot, data: Vec<u8>) -> anyhow::Result<()> {
            self.0.set_snapshot(snapshot, data)
        }
        fn get_snapshot_data(&mut self, version_id: Uuid) -> anyhow::Result<Option<Vec<u8>>> {
            self.0.get_snapshot_data(version_id)
        }
        fn get_version_by_parent(&mut self, parent_version_id: Uuid) -> anyhow::Result<Option<Version>> {
            self.0.get_version_by_parent(parent_version_id)
        }
        fn get_version(&mut self, version_id: Uuid) -> anyhow::Result<Option<Version>> {
            self.0.get_version(version_id)
        }
        fn add_version(&mut self, version_id: Uuid, parent_version_id: Uuid, history_segment: Vec<u8>) -> anyhow::Result<()> {
            self.0.add_version(version_id, parent_version_id, history_segment)
        }
        fn commit(&mut self) -> anyhow::Result<()> {
            self.0.commit()
        }
    }
}
'''

src = open(sys.argv[1]).read()
out = src + ACCESS
try:
    old = open(sys.argv[2]).read()
except OSError:
    old = None
if old != out:
    open(sys.argv[2], 'w').write(out)
