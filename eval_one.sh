#!/bin/bash
# Evaluate seeded changes inside a `vp run --with-repo` snapshot (or any copy of /verif):
#   eval_one.sh <seeded-dir>:<ID>[,<ID>...] [...]
# For each: apply seeded/<dir>/patch.diff to the repository copy ($VP_RUN_REPO or $VERIF_REPO),
# run the quick checks named, print one line per check, undo the patch. Never touches /repo.
cd "$(dirname "$0")"
R="${VP_RUN_REPO:-${VERIF_REPO:-}}"
[ -n "$R" ] && [ "$R" != "/repo" ] || { echo "need a repository COPY in VP_RUN_REPO/VERIF_REPO"; exit 2; }
export VERIF_REPO="$R"
mkdir -p .build
for spec in "$@"; do
  d=${spec%%:*}; ids=${spec##*:}
  patch=/verif/seeded/$d/patch.diff
  [ -f "$patch" ] || patch="$(pwd)/$d"
  if [ "$d" != "BASE" ]; then
    git -C "$R" apply "$patch" || { echo "RESULT $d APPLY-FAILED"; continue; }
  fi
  for id in ${ids//,/ }; do
    t0=$(date +%s)
    ./check $id --tier ${TIER:-quick} > .build/seeded-$(basename $d)-$id.txt 2>&1; rc=$?
    echo "RESULT $(basename $d) check=$id rc=$rc $(( $(date +%s) - t0 ))s $(grep -a -E '^(VIOLATION|  violated|INCONCLUSIVE|OK|NOTE)' .build/seeded-$(basename $d)-$id.txt | head -4 | cut -c1-260 | tr '\n' '|')"
  done
  [ "$d" != "BASE" ] && git -C "$R" checkout -- .
done
