#![feature(allocator_api)]
#![allow(dead_code)]
use taskchampion_sync_server_core::*;
use uuid::Uuid;
use std::cell::UnsafeCell;

pub const N: usize = 6;

#[derive(Clone, Copy)]
pub struct VRec { pub vid: u128, pub parent: u128, pub data: u8 }

pub struct St {
    pub exists: bool,
    pub latest: u128,
    pub snap: Option<(u128, i64, u32)>,
    pub snap_data: u8,
    pub versions: [VRec; N + 1],
    pub n: usize,
    pub commits: u32,
    pub calls: u8,
    pub fail_at: u8,
}

pub struct SymStorage(pub UnsafeCell<St>);
unsafe impl Sync for SymStorage {}
unsafe impl Send for SymStorage {}

struct Txn<'a> { st: &'a mut St }
impl<'a> Txn<'a> { fn tick(&mut self) -> anyhow::Result<()> { self.st.calls += 1; if self.st.calls == self.st.fail_at { Err(anyhow::anyhow!("injected")) } else { Ok(()) } } }

impl Storage for SymStorage {
    fn txn(&self, _client_id: Uuid) -> anyhow::Result<Box<dyn StorageTxn + '_>> {
        Ok(Box::new(Txn { st: unsafe { &mut *self.0.get() } }))
    }
}

fn ver(v: &VRec) -> Version { Version{version_id: Uuid::from_u128(v.vid), parent_version_id: Uuid::from_u128(v.parent), history_segment: vec![v.data]} }

impl<'a> StorageTxn for Txn<'a> {
    fn get_client(&mut self) -> anyhow::Result<Option<Client>> { self.tick()?;
        if self.st.exists { Ok(Some(Client{ latest_version_id: Uuid::from_u128(self.st.latest), snapshot: self.st.snap.map(|(v,t,c)| Snapshot{version_id: Uuid::from_u128(v), timestamp: chrono::DateTime::from_timestamp(t,0).unwrap(), versions_since: c}) })) } else { Ok(None) }
    }
    fn new_client(&mut self, l: Uuid) -> anyhow::Result<()> { self.tick()?; self.st.exists = true; self.st.latest = l.as_u128(); self.st.snap=None; Ok(()) }
    fn set_snapshot(&mut self, s: Snapshot, d: Vec<u8>) -> anyhow::Result<()> { self.tick()?; self.st.snap = Some((s.version_id.as_u128(), s.timestamp.timestamp(), s.versions_since)); self.st.snap_data = d[0]; Ok(()) }
    fn get_snapshot_data(&mut self, _v: Uuid) -> anyhow::Result<Option<Vec<u8>>> { self.tick()?; Ok(Some(vec![self.st.snap_data])) }
    fn get_version_by_parent(&mut self, p: Uuid) -> anyhow::Result<Option<Version>> { self.tick()?;
        let p = p.as_u128();
        let mut found = N + 1;
        let mut i = 0;
        while i < N + 1 { if i < self.st.n && self.st.versions[i].parent == p && found == N + 1 { found = i; } i += 1; }
        if found == N + 1 { Ok(None) } else { Ok(Some(ver(&self.st.versions[found]))) }
    }
    fn get_version(&mut self, id: Uuid) -> anyhow::Result<Option<Version>> { self.tick()?;
        let p = id.as_u128();
        let mut found = N + 1;
        let mut i = 0;
        while i < N + 1 { if i < self.st.n && self.st.versions[i].vid == p && found == N + 1 { found = i; } i += 1; }
        if found == N + 1 { Ok(None) } else { Ok(Some(ver(&self.st.versions[found]))) }
    }
    fn add_version(&mut self, vid: Uuid, parent: Uuid, data: Vec<u8>) -> anyhow::Result<()> { self.tick()?;
        let n = self.st.n;
        self.st.versions[n] = VRec{vid: vid.as_u128(), parent: parent.as_u128(), data: data[0]};
        self.st.n = n + 1;
        self.st.latest = vid.as_u128();
        if let Some(s) = self.st.snap.as_mut() { s.2 += 1; }
        Ok(())
    }
    fn commit(&mut self) -> anyhow::Result<()> { self.tick()?; self.st.commits += 1; Ok(()) }
}

#[cfg(kani)]
mod proofs {
    use super::*;

    fn any_uuid() -> Uuid { Uuid::from_u128(kani::any()) }

    fn stub_new_v4() -> Uuid {
        let u: u128 = kani::any();
        kani::assume(u != 0);
        Uuid::from_u128(u)
    }
    fn stub_format(_a: std::fmt::Arguments<'_>) -> String { String::new() }
    fn stub_anyhow_drop(_e: &mut anyhow::Error) {}
    fn stub_bt() -> std::backtrace::Backtrace { std::backtrace::Backtrace::disabled() }

    fn mk_state() -> St {
        let n: usize = kani::any();
        kani::assume(n <= N);
        let base: u128 = kani::any();
        let ids: [u128; N + 1] = kani::any();
        let datas: [u8; N + 1] = kani::any();
        let mut versions = [VRec{vid:0,parent:0,data:0}; N + 1];
        let mut i = 0;
        while i < N + 1 {
            if i < n {
                kani::assume(ids[i] != 0 && ids[i] != base);
                let mut j = 0;
                while j < i { kani::assume(ids[j] != ids[i]); j += 1; }
                versions[i] = VRec{vid: ids[i], parent: if i == 0 { base } else { ids[i-1] }, data: datas[i]};
            }
            i += 1;
        }
        St { exists: true, latest: if n == 0 { 0 } else { ids[n-1] }, snap: None, snap_data: 0, versions, n, commits: 0, calls: 0, fail_at: 255 }
    }

    #[kani::proof]
    #[kani::unwind(18)]
    #[kani::stub(uuid::Uuid::new_v4, stub_new_v4)]
    #[kani::stub(alloc::fmt::format, stub_format)]
    #[kani::stub(<anyhow::Error as core::ops::Drop>::drop, stub_anyhow_drop)]
    #[kani::stub(std::backtrace::Backtrace::capture, stub_bt)]
    fn add_version_cas() {
        let st = mk_state();
        let n = st.n;
        let latest = Uuid::from_u128(st.latest);
        let storage = SymStorage(UnsafeCell::new(st));
        let server = Server::new(ServerConfig::default(), storage);
        let client = any_uuid();
        let p = any_uuid();
        let b: u8 = kani::any();
        let r = server.add_version(client, p, vec![b]);
        match &r {
            Ok((AddVersionResult::Ok(v), _)) => {
                assert!(n == 0 || p == latest);
                assert!(v.as_u128() != 0);
            }
            Ok((AddVersionResult::ExpectedParentVersion(e), _)) => {
                assert!(n != 0 && p != latest);
                assert!(*e == latest);
            }
            Err(_) => { assert!(false); }
        }
        kani::cover!(matches!(r, Ok((AddVersionResult::Ok(_), _))));
        kani::cover!(matches!(r, Ok((AddVersionResult::ExpectedParentVersion(_), _))));
        std::mem::forget(r);
        std::mem::forget(server);
    }

    static mut NOW: i64 = 0;
    fn stub_now() -> chrono::DateTime<chrono::Utc> {
        chrono::DateTime::from_timestamp(unsafe { NOW }, 0).unwrap()
    }

    #[kani::proof]
    #[kani::unwind(18)]
    #[kani::stub(uuid::Uuid::new_v4, stub_new_v4)]
    #[kani::stub(alloc::fmt::format, stub_format)]
    #[kani::stub(<anyhow::Error as core::ops::Drop>::drop, stub_anyhow_drop)]
    #[kani::stub(std::backtrace::Backtrace::capture, stub_bt)]
    #[kani::stub(chrono::Utc::now, stub_now)]
    fn add_version_urgency() {
        let mut st = mk_state();
        kani::assume(st.n >= 1);
        let dsel: u8 = kani::any();
        let ts: i64 = 1_700_000_000;
        let days: i64 = match dsel { 0 => 0, 1 => 13, 2 => 14, 3 => 20, 4 => 21, _ => 400 };
        let now: i64 = ts + days * 86400 + 86399;
        unsafe { NOW = now; }
        let vs: u32 = kani::any();
        st.snap = Some((st.versions[0].vid, ts, vs));
        let latest = Uuid::from_u128(st.latest);
        let storage = SymStorage(UnsafeCell::new(st));
        let sd: i64 = kani::any();
        let sv: u32 = kani::any();
        kani::assume(sd >= 0 && sd <= 1_000_000);
        kani::assume(sv <= 1_000_000);
        let server = Server::new(ServerConfig{snapshot_days: sd, snapshot_versions: sv}, storage);
        let r = server.add_version(any_uuid(), latest, vec![1]);
        if let Ok((AddVersionResult::Ok(_), u)) = &r {
            let hi = days >= sd * 3 / 2 || (vs as u64) >= (sv as u64) * 3 / 2;
            let lo = days >= sd || vs >= sv;
            let exp = if hi { SnapshotUrgency::High } else if lo { SnapshotUrgency::Low } else { SnapshotUrgency::None };
            assert!(*u == exp);
        } else { assert!(false); }
        std::mem::forget(r);
        std::mem::forget(server);
    }

    #[kani::proof]
    #[kani::unwind(18)]
    #[kani::stub(alloc::fmt::format, stub_format)]
    #[kani::stub(<anyhow::Error as core::ops::Drop>::drop, stub_anyhow_drop)]
    #[kani::stub(std::backtrace::Backtrace::capture, stub_bt)]
    #[kani::stub(chrono::Utc::now, stub_now)]
    fn add_snapshot_window() {
        let mut st = mk_state();
        let n = st.n;
        // existing snapshot at position sp (or none)
        let has: bool = kani::any();
        let sp: usize = kani::any();
        kani::assume(sp < N + 1);
        if has { kani::assume(sp < n); st.snap = Some((st.versions[sp].vid, 0, 0)); st.snap_data = 7; }
        let ids = st.versions;
        let storage = SymStorage(UnsafeCell::new(st));
        let server = Server::new(ServerConfig::default(), storage);
        let v = any_uuid();
        let r = server.add_snapshot(any_uuid(), v, vec![9]);
        assert!(r.is_ok());
        let got = server.get_snapshot(any_uuid()).unwrap();
        // spec
        let mut pos: Option<usize> = None;
        let mut i = 0;
        while i < N + 1 { if i < n && ids[i].vid == v.as_u128() { pos = Some(i); } i += 1; }
        let accept = match pos { None => false, Some(p) => n - 1 - p < 5 && (!has || p > sp) };
        if accept { assert!(got == Some((v, vec![9]))); }
        else if has { assert!(got == Some((Uuid::from_u128(ids[sp].vid), vec![7]))); }
        else { assert!(got.is_none()); }
        kani::cover!(accept && n == 6);
        kani::cover!(!accept && pos.is_some());
        std::mem::forget(got);
        std::mem::forget(server);
    }

    #[kani::proof]
    #[kani::unwind(18)]
    #[kani::stub(alloc::fmt::format, stub_format)]
    #[kani::stub(<anyhow::Error as core::ops::Drop>::drop, stub_anyhow_drop)]
    #[kani::stub(std::backtrace::Backtrace::capture, stub_bt)]
    fn inmem_basic() {
        let s = InMemoryStorage::new();
        let c = any_uuid();
        let mut t = s.txn(c).unwrap();
        t.new_client(Uuid::nil()).unwrap();
        let v1 = any_uuid();
        let p = any_uuid();
        let b: u8 = kani::any();
        t.add_version(v1, p, vec![b]).unwrap();
        let got = t.get_version_by_parent(p).unwrap();
        assert!(got.is_some());
        let q = any_uuid();
        let got2 = t.get_version_by_parent(q).unwrap();
        assert!(got2.is_some() == (q == p));
        t.commit().unwrap();
        std::mem::forget(got); std::mem::forget(got2);
        std::mem::forget(t);
        std::mem::forget(s);
    }

    #[kani::proof]
    #[kani::unwind(40)]
    fn uuid_text_roundtrip() {
        let u = any_uuid();
        let s = u.to_string();
        let b = s.as_bytes();
        assert!(b.len() == 36);
        assert!(b[8] == b'-' && b[13] == b'-' && b[18] == b'-' && b[23] == b'-');
        let mut i = 0;
        while i < 36 { let c = b[i]; assert!(c == b'-' || (c >= b'0' && c <= b'9') || (c >= b'a' && c <= b'f')); i += 1; }
        let back = Uuid::parse_str(&s);
        assert!(back.is_ok());
        assert!(back.unwrap().as_u128() == u.as_u128());
        std::mem::forget(s);
    }

    fn stub_rs() -> std::collections::hash_map::RandomState { unsafe { std::mem::transmute::<[u64;2], std::collections::hash_map::RandomState>([0,0]) } }
    fn small_uuid() -> Uuid { let x: u8 = kani::any(); kani::assume(x < 4); Uuid::from_u128(x as u128) }

    #[kani::proof]
    #[kani::unwind(18)]
    #[kani::stub(alloc::fmt::format, stub_format)]
    #[kani::stub(<anyhow::Error as core::ops::Drop>::drop, stub_anyhow_drop)]
    #[kani::stub(std::backtrace::Backtrace::capture, stub_bt)]
    #[kani::stub(std::collections::hash_map::RandomState::new, stub_rs)]
    fn inmem_small() {
        let s = InMemoryStorage::new();
        let c = small_uuid();
        let mut t = s.txn(c).unwrap();
        t.new_client(Uuid::nil()).unwrap();
        let v1 = small_uuid();
        let p = small_uuid();
        let b: u8 = kani::any();
        t.add_version(v1, p, vec![b]).unwrap();
        let got = t.get_version_by_parent(p).unwrap();
        assert!(got.is_some());
        let q = small_uuid();
        let got2 = t.get_version_by_parent(q).unwrap();
        assert!(got2.is_some() == (q == p));
        t.commit().unwrap();
        std::mem::forget(got); std::mem::forget(got2);
        std::mem::forget(t);
        std::mem::forget(s);
    }

    #[kani::proof]
    #[kani::unwind(5)]
    #[kani::stub(alloc::fmt::format, stub_format)]
    #[kani::stub(<anyhow::Error as core::ops::Drop>::drop, stub_anyhow_drop)]
    #[kani::stub(std::backtrace::Backtrace::capture, stub_bt)]
    #[kani::stub(std::collections::hash_map::RandomState::new, stub_rs)]
    fn inmem_u5() {
        let s = InMemoryStorage::new();
        let c = small_uuid();
        let mut t = s.txn(c).unwrap();
        t.new_client(Uuid::nil()).unwrap();
        let v1 = small_uuid();
        let p = small_uuid();
        let b: u8 = kani::any();
        t.add_version(v1, p, vec![b]).unwrap();
        let got = t.get_version_by_parent(p).unwrap();
        assert!(got.is_some());
        let q = small_uuid();
        let got2 = t.get_version_by_parent(q).unwrap();
        assert!(got2.is_some() == (q == p));
        t.commit().unwrap();
        std::mem::forget(got); std::mem::forget(got2);
        std::mem::forget(t);
        std::mem::forget(s);
    }

    #[kani::proof]
    #[kani::unwind(40)]
    fn uuid_encode_only() {
        let u = any_uuid();
        let s = u.to_string();
        let b = s.as_bytes();
        assert!(b.len() == 36);
        assert!(b[8] == b'-' && b[13] == b'-' && b[18] == b'-' && b[23] == b'-');
        let raw = u.as_bytes();
        // first byte encodes to two lowercase hex digits
        let hi = raw[0] >> 4; let lo = raw[0] & 15;
        let hx = |n: u8| if n < 10 { b'0' + n } else { b'a' + n - 10 };
        assert!(b[0] == hx(hi) && b[1] == hx(lo));
        let hi = raw[15] >> 4; let lo = raw[15] & 15;
        assert!(b[34] == hx(hi) && b[35] == hx(lo));
        std::mem::forget(s);
    }

    #[kani::proof]
    #[kani::unwind(40)]
    fn uuid_parse_only() {
        let raw: [u8; 16] = kani::any();
        let mut txt = [0u8; 36];
        let hx = |n: u8| if n < 10 { b'0' + n } else { b'a' + n - 10 };
        let mut i = 0; let mut o = 0;
        while i < 16 { if o == 8 || o == 13 || o == 18 || o == 23 { txt[o] = b'-'; o += 1; } txt[o] = hx(raw[i] >> 4); txt[o+1] = hx(raw[i] & 15); o += 2; i += 1; }
        let s = unsafe { std::str::from_utf8_unchecked(&txt) };
        let back = Uuid::parse_str(s);
        assert!(back.is_ok());
        assert!(*back.unwrap().as_bytes() == raw);
    }

    #[kani::proof]
    #[kani::unwind(18)]
    #[kani::stub(uuid::Uuid::new_v4, stub_new_v4)]
    #[kani::stub(alloc::fmt::format, stub_format)]
    #[kani::stub(<anyhow::Error as core::ops::Drop>::drop, stub_anyhow_drop)]
    #[kani::stub(std::backtrace::Backtrace::capture, stub_bt)]
    fn fault_probe() {
        let mut st = mk_state();
        kani::assume(st.n <= 3);
        let f: u8 = kani::any();
        kani::assume(f >= 1 && f <= 4);
        st.fail_at = f;
        let n0 = st.n; let latest0 = st.latest;
        let storage = SymStorage(UnsafeCell::new(st));
        let server = Server::new(ServerConfig::default(), storage);
        let p = any_uuid();
        let r = server.add_version(any_uuid(), p, vec![1]);
        let calls = 0; let _ = calls;
        match &r {
            Ok((AddVersionResult::Ok(_), _)) => { assert!(f > 3); }
            Ok((AddVersionResult::ExpectedParentVersion(_), _)) => { assert!(f > 1); }
            Err(_) => { assert!(f <= 3); }
        }
        kani::cover!(r.is_err());
        kani::cover!(matches!(r, Ok((AddVersionResult::Ok(_), _))));
        let _ = (n0, latest0);
        std::mem::forget(r);
        std::mem::forget(server);
    }

    #[kani::proof]
    #[kani::unwind(40)]
    fn uuid_parse4() {
        let sym: [u8; 4] = kani::any();
        let mut raw = [0x5au8; 16];
        raw[0] = sym[0]; raw[5] = sym[1]; raw[10] = sym[2]; raw[15] = sym[3];
        let mut txt = [0u8; 36];
        let hx = |n: u8| if n < 10 { b'0' + n } else { b'a' + n - 10 };
        let mut i = 0; let mut o = 0;
        while i < 16 { if o == 8 || o == 13 || o == 18 || o == 23 { txt[o] = b'-'; o += 1; } txt[o] = hx(raw[i] >> 4); txt[o+1] = hx(raw[i] & 15); o += 2; i += 1; }
        let s = unsafe { std::str::from_utf8_unchecked(&txt) };
        let back = Uuid::parse_str(s);
        assert!(back.is_ok());
        assert!(*back.unwrap().as_bytes() == raw);
    }

    fn stub_from_utf8(v: &[u8]) -> Result<&str, std::str::Utf8Error> {
        let mut i = 0;
        while i < v.len() { kani::assume(v[i] < 0x80); i += 1; }
        Ok(unsafe { std::str::from_utf8_unchecked(v) })
    }
    #[kani::proof]
    #[kani::unwind(40)]
    #[kani::stub(core::str::from_utf8, stub_from_utf8)]
    fn uuid_parse_full_ascii() {
        let raw: [u8; 16] = kani::any();
        let mut txt = [0u8; 36];
        let hx = |n: u8| if n < 10 { b'0' + n } else { b'a' + n - 10 };
        let mut i = 0; let mut o = 0;
        while i < 16 { if o == 8 || o == 13 || o == 18 || o == 23 { txt[o] = b'-'; o += 1; } txt[o] = hx(raw[i] >> 4); txt[o+1] = hx(raw[i] & 15); o += 2; i += 1; }
        let s = unsafe { std::str::from_utf8_unchecked(&txt) };
        let back = Uuid::parse_str(s);
        assert!(back.is_ok());
        assert!(*back.unwrap().as_bytes() == raw);
    }
    #[kani::proof]
    #[kani::unwind(40)]
    #[kani::stub(core::str::from_utf8, stub_from_utf8)]
    fn uuid_roundtrip_ascii() {
        let u = any_uuid();
        let s = u.to_string();
        let back = Uuid::parse_str(&s);
        assert!(back.is_ok());
        assert!(back.unwrap().as_u128() == u.as_u128());
        std::mem::forget(s);
    }

    fn empty_state() -> St {
        St { exists: false, latest: 0, snap: None, snap_data: 0, versions: [VRec{vid:0,parent:0,data:0}; N + 1], n: 0, commits: 0, calls: 0, fail_at: 255 }
    }
    #[derive(Clone, Copy, PartialEq)]
    enum Resp { Pending, Ok200(u128), Conflict409(u128), Ise500 }

    fn race(fixed: bool) {
        let storage = SymStorage(UnsafeCell::new(empty_state()));
        let server = Server::new(ServerConfig::default(), storage);
        let c = any_uuid();
        let parents: [u128; 2] = kani::any();
        let mut pc = [0u8; 2];
        let mut resp = [Resp::Pending; 2];
        let mut step = 0;
        while step < 6 {
            let r: usize = if kani::any() { 0 } else { 1 };
            if pc[r] < 3 {
                if pc[r] == 0 || pc[r] == 2 {
                    match server.add_version(c, Uuid::from_u128(parents[r]), vec![r as u8]) {
                        Ok((AddVersionResult::Ok(v), _)) => { resp[r] = Resp::Ok200(v.as_u128()); pc[r] = 3; }
                        Ok((AddVersionResult::ExpectedParentVersion(e), _)) => { resp[r] = Resp::Conflict409(e.as_u128()); pc[r] = 3; }
                        Err(ServerError::NoSuchClient) => { pc[r] = 1; }
                        Err(_) => { resp[r] = Resp::Ise500; pc[r] = 3; }
                    }
                } else {
                    let mut t = server.txn(c).unwrap();
                    let need = if fixed { t.get_client().unwrap().is_none() } else { true };
                    if need { t.new_client(Uuid::nil()).unwrap(); t.commit().unwrap(); }
                    std::mem::forget(t);
                    pc[r] = 2;
                }
            }
            step += 1;
        }
        kani::assume(pc[0] == 3 && pc[1] == 3);
        let ok = match (resp[0], resp[1]) {
            (Resp::Ok200(a), Resp::Conflict409(b)) => a == b,
            (Resp::Conflict409(b), Resp::Ok200(a)) => a == b,
            (Resp::Ok200(a), Resp::Ok200(_b)) => parents[1] == a || parents[0] == _b,
            _ => false,
        };
        assert!(ok);
        kani::cover!(matches!(resp[0], Resp::Ok200(_)) && matches!(resp[1], Resp::Conflict409(_)));
        std::mem::forget(server);
    }

    #[kani::proof]
    #[kani::unwind(18)]
    #[kani::stub(uuid::Uuid::new_v4, stub_new_v4)]
    #[kani::stub(alloc::fmt::format, stub_format)]
    #[kani::stub(<anyhow::Error as core::ops::Drop>::drop, stub_anyhow_drop)]
    #[kani::stub(std::backtrace::Backtrace::capture, stub_bt)]
    fn race_current() { race(false); }

    #[kani::proof]
    #[kani::unwind(18)]
    #[kani::stub(uuid::Uuid::new_v4, stub_new_v4)]
    #[kani::stub(alloc::fmt::format, stub_format)]
    #[kani::stub(<anyhow::Error as core::ops::Drop>::drop, stub_anyhow_drop)]
    #[kani::stub(std::backtrace::Backtrace::capture, stub_bt)]
    fn race_fixed() { race(true); }

    #[kani::proof]
    #[kani::unwind(18)]
    #[kani::stub(uuid::Uuid::new_v4, stub_new_v4)]
    #[kani::stub(alloc::fmt::format, stub_format)]
    #[kani::stub(<anyhow::Error as core::ops::Drop>::drop, stub_anyhow_drop)]
    #[kani::stub(std::backtrace::Backtrace::capture, stub_bt)]
    #[kani::stub(chrono::Utc::now, stub_now)]
    fn hist3() {
        let mut st = empty_state(); st.exists = true;
        let storage = SymStorage(UnsafeCell::new(st));
        let server = Server::new(ServerConfig::default(), storage);
        let c = any_uuid();
        let mut accepted: [u128; 3] = [0; 3]; let mut na = 0usize; let mut base = 0u128;
        let mut k = 0;
        while k < 3 {
            let op: u8 = kani::any();
            let arg = any_uuid();
            if op == 0 {
                if let Ok((AddVersionResult::Ok(v), _)) = server.add_version(c, arg, vec![k as u8]) { if na == 0 { base = arg.as_u128(); } accepted[na] = v.as_u128(); na += 1; }
            } else if op == 1 {
                let r = server.get_child_version(c, arg); std::mem::forget(r);
            } else if op == 2 {
                let r = server.add_snapshot(c, arg, vec![7]); assert!(r.is_ok());
            } else {
                let r = server.get_snapshot(c); std::mem::forget(r);
            }
            k += 1;
        }
        // walk
        let mut cur = base; let mut i = 0;
        while i < 4 {
            match server.get_child_version(c, Uuid::from_u128(cur)) {
                Ok(GetVersionResult::Success{version_id, ..}) => { assert!(i < na && version_id.as_u128() == accepted[i]); cur = version_id.as_u128(); }
                Ok(GetVersionResult::NotFound) => { assert!(i == na); break; }
                _ => { assert!(false); }
            }
            i += 1;
        }
        kani::cover!(na == 3);
        std::mem::forget(server);
    }

    // ---- type-erased association-list model of std HashMap, keyed by the map's address
    use std::collections::HashMap;
    use std::hash::{Hash, BuildHasher};
    use std::borrow::Borrow;
    #[derive(Clone, Copy)]
    struct Ent { used: bool, map: usize, key: *const (), val: *mut () }
    const ME: usize = 8;
    static mut TAB: [Ent; ME] = [Ent { used: false, map: 0, key: std::ptr::null(), val: std::ptr::null_mut() }; ME];

    fn hm_find<K, V, S, A: std::alloc::Allocator, Q: ?Sized>(this: &HashMap<K, V, S, A>, k: &Q) -> usize where K: Borrow<Q>, Q: Eq {
        let me = this as *const _ as usize;
        let mut i = 0; let mut found = ME;
        while i < ME {
            let e = unsafe { TAB[i] };
            if e.used && e.map == me && found == ME {
                let kk: &K = unsafe { &*(e.key as *const K) };
                if kk.borrow() == k { found = i; }
            }
            i += 1;
        }
        found
    }
    fn hm_get<'a, K, V, S, A: std::alloc::Allocator, Q: ?Sized>(this: &'a HashMap<K, V, S, A>, k: &Q) -> Option<&'a V> where K: Eq + Hash + Borrow<Q>, Q: Hash + Eq, S: BuildHasher {
        let i = hm_find(this, k);
        if i == ME { None } else { Some(unsafe { &*(TAB[i].val as *const V) }) }
    }
    fn hm_get_mut<'a, K, V, S, A: std::alloc::Allocator, Q: ?Sized>(this: &'a mut HashMap<K, V, S, A>, k: &Q) -> Option<&'a mut V> where K: Eq + Hash + Borrow<Q>, Q: Hash + Eq, S: BuildHasher {
        let i = hm_find(this, k);
        if i == ME { None } else { Some(unsafe { &mut *(TAB[i].val as *mut V) }) }
    }
    fn hm_contains_key<K, V, S, A: std::alloc::Allocator, Q: ?Sized>(this: &HashMap<K, V, S, A>, k: &Q) -> bool where K: Eq + Hash, S: BuildHasher, K: Borrow<Q>, Q: Hash + Eq {
        hm_find(this, k) != ME
    }
    fn hm_insert<K, V, S, A: std::alloc::Allocator>(this: &mut HashMap<K, V, S, A>, k: K, v: V) -> Option<V> where K: Eq + Hash, S: BuildHasher {
        let i = hm_find::<K, V, S, A, K>(this, &k);
        if i != ME {
            let old = unsafe { std::ptr::replace(TAB[i].val as *mut V, v) };
            std::mem::forget(k);
            return Some(old);
        }
        let me = this as *const _ as usize;
        let mut j = 0; let mut free = ME;
        while j < ME { if unsafe { !TAB[j].used } && free == ME { free = j; } j += 1; }
        assert!(free < ME);
        let kb = Box::into_raw(Box::new(k)) as *const ();
        let vb = Box::into_raw(Box::new(v)) as *mut ();
        unsafe { TAB[free] = Ent { used: true, map: me, key: kb, val: vb }; }
        None
    }

    #[kani::proof]
    #[kani::unwind(18)]
    #[kani::stub(alloc::fmt::format, stub_format)]
    #[kani::stub(<anyhow::Error as core::ops::Drop>::drop, stub_anyhow_drop)]
    #[kani::stub(std::backtrace::Backtrace::capture, stub_bt)]
    #[kani::stub(std::collections::hash_map::RandomState::new, stub_rs)]
    #[kani::stub(std::collections::HashMap::get, hm_get)]
    #[kani::stub(std::collections::HashMap::get_mut, hm_get_mut)]
    #[kani::stub(std::collections::HashMap::contains_key, hm_contains_key)]
    #[kani::stub(std::collections::HashMap::insert, hm_insert)]
    fn inmem_stubbed() {
        let s = InMemoryStorage::new();
        let c = any_uuid();
        let mut t = s.txn(c).unwrap();
        t.new_client(Uuid::nil()).unwrap();
        let v1 = any_uuid();
        let p = any_uuid();
        let b: u8 = kani::any();
        t.add_version(v1, p, vec![b]).unwrap();
        let got = t.get_version_by_parent(p).unwrap();
        assert!(got.is_some());
        let q = any_uuid();
        let got2 = t.get_version_by_parent(q).unwrap();
        assert!(got2.is_some() == (q == p));
        let cl = t.get_client().unwrap().unwrap();
        assert!(cl.latest_version_id == v1);
        t.commit().unwrap();
        std::mem::forget(got); std::mem::forget(got2); std::mem::forget(cl);
        std::mem::forget(t);
        std::mem::forget(s);
    }

    fn ck_v1<K, V, S, A: std::alloc::Allocator, Q>(this: &HashMap<K, V, S, A>, k: &Q) -> bool where K: Borrow<Q>, Q: Hash + Eq { hm_find(this, k) != ME }
    fn ck_v2<Q: ?Sized, K, V, S, A: std::alloc::Allocator>(this: &HashMap<K, V, S, A>, k: &Q) -> bool where K: Borrow<Q>, Q: Hash + Eq { hm_find(this, k) != ME }
    fn ck_v3<K, V, S, A, Q: ?Sized>(this: &HashMap<K, V, S, A>, k: &Q) -> bool where K: Borrow<Q>, Q: Hash + Eq, A: std::alloc::Allocator { hm_find(this, k) != ME }
    #[kani::proof]
    #[kani::stub(std::collections::HashMap::contains_key, ck_v1)]
    fn t_v1() { let m: HashMap<u8, u8> = HashMap::new(); assert!(!m.contains_key(&1)); }
    #[kani::proof]
    #[kani::stub(std::collections::HashMap::contains_key, ck_v2)]
    fn t_v2() { let m: HashMap<u8, u8> = HashMap::new(); assert!(!m.contains_key(&1)); }
    #[kani::proof]
    #[kani::stub(std::collections::HashMap::contains_key, ck_v3)]
    fn t_v3() { let m: HashMap<u8, u8> = HashMap::new(); assert!(!m.contains_key(&1)); }
}
