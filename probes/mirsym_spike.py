#!/usr/bin/env python3
"""Spike: path-enumerating symbolic executor over rustc's -Zunpretty=mir text.
Calls to non-repo functions are uninterpreted; enums of unknown value get a lazily created
discriminant that switchInt forks on.  Prints (path condition, effects, result) per path."""
import re, sys, itertools

VARIANTS = {'None': 0, 'Some': 1, 'Ok': 0, 'Err': 1, 'Continue': 0, 'Break': 1, 'Ready': 0, 'Pending': 1}

def split_top(s, sep=','):
    out, depth, cur = [], 0, ''
    for ch in s:
        if ch in '([{<': depth += 1
        elif ch in ')]}>' and not (ch == '>' and cur.endswith('-')): depth -= 1
        if ch == sep and depth == 0: out.append(cur.strip()); cur = ''
        else: cur += ch
    if cur.strip(): out.append(cur.strip())
    return out

class Fn:
    def __init__(self, name, params): self.name, self.params, self.blocks = name, params, {}

def parse(path):
    fns, cur, bb = {}, None, None
    for line in open(path):
        m = re.match(r'^fn (.*?)\((.*)\) -> .*\{\s*$', line)
        if m:
            params = [p.split(':')[0].strip() for p in split_top(m.group(2))] if m.group(2).strip() else []
            cur = Fn(m.group(1).strip(), params); fns[cur.name] = cur; bb = None; continue
        if cur is None: continue
        if line.startswith('}'): cur = None; continue
        m = re.match(r'^\s+(bb\d+)( \(cleanup\))?: \{', line)
        if m: bb = m.group(1); cur.blocks[bb] = []; continue
        if bb and line.strip() == '}': bb = None; continue
        if bb:
            st = line.strip()
            if st and not st.startswith('//'): cur.blocks[bb].append(st.rstrip(';'))
    return fns

class Opaque:
    n = 0
    def __init__(self, label): self.label = label; self.kids = {}; self.disc = None
    def __repr__(self): return self.label
class Enum:
    def __init__(self, variant, fields): self.variant, self.fields = variant, fields
    def __repr__(self): return f'{self.variant}({", ".join(map(repr, self.fields))})' if self.fields else self.variant
class Tup:
    def __init__(self, items): self.items = items
    def __repr__(self): return '(' + ', '.join(map(repr, self.items)) + ')'
class Const:
    def __init__(self, t): self.t = t; self.kids = {}; self.label = t; self.disc = None
    def __repr__(self): return self.t

class Path(Exception): pass

class State:
    def __init__(self): self.env = {}; self.pc = []; self.decided = {}; self.effects = []
    def clone(self):
        s = State(); s.env = dict(self.env); s.pc = list(self.pc); s.decided = dict(self.decided); s.effects = list(self.effects); return s

class Exec:
    def __init__(self, fns): self.fns = fns; self.results = []

    def find(self, frag):
        c = [f for n, f in self.fns.items() if frag in n]
        return c[0] if len(c) == 1 else None

    # ---- places / operands
    def read_place(self, st, p):
        p = p.strip()
        while p.startswith('(') and p.endswith(')') and self.balanced(p[1:-1]): p = p[1:-1].strip()
        if p.startswith('*'): return self.read_place(st, p[1:])            # refs are transparent
        m = re.match(r'^\((.*) as (\w+)\)\.(\d+): .*$', p) or re.match(r'^\((.*) as (\w+)\)\.(\d+)$', p)
        if m:
            base = self.read_place(st, m.group(1)); var, idx = m.group(2), int(m.group(3))
            if isinstance(base, Enum): return base.fields[idx]
            return base.kids.setdefault((var, idx), Opaque(f'{base.label}.{var}.{idx}'))
        m = re.match(r'^(.*)\.(\d+): .*$', p) or re.match(r'^(.*)\.(\d+)$', p)
        if m and not re.match(r'^_\d+$', p):
            base = self.read_place(st, m.group(1)); idx = int(m.group(2))
            if isinstance(base, Tup): return base.items[idx]
            return base.kids.setdefault(('f', idx), Opaque(f'{base.label}.{idx}'))
        if re.match(r'^_\d+$', p): return st.env.setdefault(p, Opaque(p))
        return Const(p)
    def balanced(self, s):
        d = 0
        for ch in s:
            if ch == '(': d += 1
            elif ch == ')':
                d -= 1
                if d < 0: return False
        return d == 0
    def operand(self, st, o):
        o = o.strip()
        for pre in ('copy ', 'move '):
            if o.startswith(pre): return self.read_place(st, o[len(pre):])
        if o.startswith('const '): return Const(o[6:])
        return Const(o)
    def rvalue(self, st, r):
        r = r.strip()
        if r.startswith('&mut ') : return self.read_place(st, r[5:])
        if r.startswith('&'): return self.read_place(st, r[1:])
        m = re.match(r'^discriminant\((.*)\)$', r)
        if m: return ('disc', self.read_place(st, m.group(1)))
        m = re.match(r'^(?:[\w:<>, &\']+::)?(Ok|Err|Some|Continue|Break|Ready)\((.*)\)$', r)
        if m and '::<' in r.split('(')[0] or (m and r.split('(')[0].split('::')[-1] in VARIANTS and r[0].isupper() and '(' in r and not r.startswith('Result::<') is False):
            pass
        m = re.match(r'^[\w:<>, &\'\[\]\(\)]*?::(Ok|Err|Some|Continue|Break|Ready)\((.*)\)$', r)
        if m: return Enum(m.group(1), [self.operand(st, a) for a in split_top(m.group(2))])
        if re.match(r'^[\w:<>, &\']*::None$', r): return Enum('None', [])
        if r.startswith('(') and r.endswith(')') and self.balanced(r[1:-1]) and ',' in r: return Tup([self.operand(st, a) for a in split_top(r[1:-1])])
        return self.operand(st, r)

    # ---- calls
    def call(self, st, callee, args):
        short = callee
        if 'as Try>::branch' in callee:
            v = args[0]
            if isinstance(v, Enum): return Enum('Continue' if v.variant in ('Ok', 'Some') else 'Break', [v.fields[0]] if v.variant in ('Ok', 'Some') else [Enum(v.variant, v.fields)])
            return ('lazy_branch', v)
        if 'FromResidual' in callee:
            v = args[0]
            return v if isinstance(v, Enum) else Enum('Err', [v.kids.setdefault(('Err', 0), Opaque(f'{v.label}.Err.0'))] if isinstance(v, Opaque) else [v])
        if '::map_err::' in callee:
            v, f = args[0], args[1]
            return ('lazy_map_err', v, f, callee)
        if 'as Deref>::deref' in callee: return args[0]
        target = None
        m = re.match(r'^([\w:]+)$', callee)
        for name, fn in self.fns.items():
            if name.endswith('::' + callee.split('::')[-1]) and callee.split('::')[-1] in ('client_id_header',) or name == callee: target = fn
        if callee == 'badrequest': target = self.fns.get('badrequest')
        if target is not None: return ('inline', target, args)
        if callee.startswith('taskchampion_sync_server_core::Server::'):
            st.effects.append((callee.split('::')[-1], args[1:]))
        return Opaque(f'{callee.split("::<")[0]}({", ".join(map(repr, args))})')

    def run(self, fn, args, st, depth=0):
        """generator of (state, return value)"""
        st = st.clone(); saved = st.env; st.env = {p: a for p, a in zip(fn.params, args)}
        for (s2, rv) in self.block(fn, 'bb0', st, 0):
            s2.env = saved; yield s2, rv

    def block(self, fn, bb, st, steps):
        if steps > 400: return
        for i, stmt in enumerate(fn.blocks[bb]):
            if stmt.startswith(('StorageLive', 'StorageDead', 'nop', 'FakeRead', 'PlaceMention', 'AscribeUserType', 'Retag', 'Coverage')): continue
            if stmt.startswith('goto -> '): yield from self.block(fn, stmt[8:], st, steps + 1); return
            if stmt == 'return': yield st, st.env.get('_0'); return
            if stmt in ('unreachable', 'resume'): return
            m = re.match(r'^drop\(.*\) -> \[return: (bb\d+),', stmt)
            if m: yield from self.block(fn, m.group(1), st, steps + 1); return
            m = re.match(r'^switchInt\((.*)\) -> \[(.*)\]$', stmt)
            if m:
                v = self.operand(st, m.group(1)); arms = [a.split(': ') for a in split_top(m.group(2))]
                if isinstance(v, tuple) and v[0] == 'disc':
                    subj = v[1]
                    if isinstance(subj, Enum):
                        d = VARIANTS[subj.variant]
                        for k, t in arms:
                            if k != 'otherwise' and int(k) == d: yield from self.block(fn, t, st, steps + 1); return
                        return
                    for k, t in arms:
                        if k == 'otherwise': continue
                        if id(subj) in st.decided and st.decided[id(subj)] != int(k): continue
                        s2 = st.clone(); s2.decided[id(subj)] = int(k); s2.pc.append(f'disc({subj.label})={k}')
                        yield from self.block(fn, t, s2, steps + 1)
                    return
                # boolean opaque
                for k, t in arms:
                    key = 0 if k == '0' else 1
                    if id(v) in st.decided and st.decided[id(v)] != key: continue
                    s2 = st.clone(); s2.decided[id(v)] = key; s2.pc.append(f'{v!r}={"false" if key == 0 else "true"}')
                    yield from self.block(fn, t, s2, steps + 1)
                return
            m = re.match(r'^(_\d+) = (.*?)\((.*)\) -> \[return: (bb\d+), unwind.*\]$', stmt)
            if m and not m.group(2).startswith(('copy', 'move', '&', 'const')) and not re.match(r'^[\w:<>, &\']*::(Ok|Err|Some|Continue|Break|Ready)$', m.group(2)):
                dst, callee, a, nxt = m.group(1), m.group(2), m.group(3), m.group(4)
                args = [self.operand(st, x) for x in split_top(a)]
                r = self.call(st, callee, args)
                outs = [(st, r)]
                if isinstance(r, tuple) and r[0] == 'inline': outs = list(self.run(r[1], r[2], st))
                final = []
                for (s1, r1) in outs:
                    if isinstance(r1, tuple) and r1[0] in ('lazy_branch', 'lazy_map_err'):
                        v = r1[1]
                        for variant, d in (('Ok', 0), ('Err', 1)):
                            if id(v) in s1.decided and s1.decided[id(v)] != d: continue
                            s2 = s1.clone(); s2.decided[id(v)] = d; s2.pc.append(f'{v.label} is {variant}')
                            payload = v.kids.setdefault((variant, 0), Opaque(f'{v.label}.{variant}.0'))
                            if r1[0] == 'lazy_branch': val = Enum('Continue', [payload]) if d == 0 else Enum('Break', [Enum('Err', [payload])])
                            else:
                                if d == 0: val = Enum('Ok', [payload])
                                else:
                                    clo = re.search(r'\{closure@([^}]*)\}', r1[3]); cf = None
                                    if clo:
                                        for n, f in self.fns.items():
                                            if 'closure#' in n and f.blocks and any('badrequest' in x for b in f.blocks.values() for x in b): cf = f
                                    val = Enum('Err', [Opaque(f'mapped[{r1[3].split("::map_err::")[1][:60]}]({payload!r})')])
                            final.append((s2, val))
                    else: final.append((s1, r1))
                for (s1, val) in final:
                    s1.env[dst] = val
                    yield from self.block(fn, nxt, s1, steps + 1)
                return
            m = re.match(r'^(_\d+) = (.*)$', stmt)
            if m: st.env[m.group(1)] = self.rvalue(st, m.group(2)); continue
            m = re.match(r'^discriminant\(.*\) = \d+$', stmt)
            if m: continue
            m = re.match(r'^\(.*\) = .*$', stmt)
            if m: continue
            print('UNHANDLED', stmt, file=sys.stderr)

if __name__ == '__main__':
    fns = parse(sys.argv[1]); ex = Exec(fns)
    fn = [f for n, f in fns.items() if n.endswith(sys.argv[2]) and (len(sys.argv) < 4 or sys.argv[3] in n)][0]
    print('function:', fn.name[:110], 'blocks:', len(fn.blocks))
    args = [Opaque(p) for p in fn.params]
    n = 0
    for st, rv in ex.run(fn, args, State()):
        n += 1
        print(f'path {n}: IF {" & ".join(st.pc) or "true"}\n    EFFECTS {st.effects}\n    RETURN {rv!r}')
