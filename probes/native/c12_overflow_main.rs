use taskchampion_sync_server_core::*;
use uuid::Uuid;
fn run(sv: u32, sd: i64, vs: u32) {
    let storage = InMemoryStorage::new();
    let c = Uuid::new_v4();
    let v1 = Uuid::new_v4();
    {
        let mut t = storage.txn(c).unwrap();
        t.new_client(Uuid::nil()).unwrap();
        t.add_version(v1, Uuid::nil(), vec![1]).unwrap();
        t.set_snapshot(Snapshot{version_id: v1, timestamp: chrono::Utc::now(), versions_since: vs}, vec![2]).unwrap();
        t.commit().unwrap();
    }
    let server = Server::new(ServerConfig{snapshot_days: sd, snapshot_versions: sv}, storage);
    let r = std::panic::catch_unwind(std::panic::AssertUnwindSafe(|| server.add_version(c, v1, vec![3])));
    match r { Ok(Ok((_, u))) => println!("sv={sv} sd={sd} vs={vs} -> urgency {:?}", u), Ok(Err(e)) => println!("err {e}"), Err(_) => println!("sv={sv} sd={sd} vs={vs} -> PANIC") }
}
fn main() {
    run(100, 14, 1);
    run(1431655766, 14, 1);          // 3*sv wraps to 2 -> high threshold 1
    run(2_000_000_000, 14, 900_000_000);
    run(100, i64::MAX / 2, 1);       // 3*sd overflows i64
    run(100, 4_000_000_000_000_000_000, 1);
}
