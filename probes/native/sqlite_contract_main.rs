use rusqlite::{params, Connection, types::Value};
fn main() {
    let d = tempfile::TempDir::new().unwrap();
    let p = d.path().join("t.sqlite3");
    let c = Connection::open(&p).unwrap();
    let jm: String = c.query_row("PRAGMA journal_mode=WAL", [], |r| r.get(0)).unwrap();
    let sync: i64 = c.query_row("PRAGMA synchronous", [], |r| r.get(0)).unwrap();
    let bt: i64 = c.query_row("PRAGMA busy_timeout", [], |r| r.get(0)).unwrap();
    println!("journal_mode={jm} synchronous={sync} busy_timeout={bt}");
    c.execute("CREATE TABLE IF NOT EXISTS clients (client_id STRING PRIMARY KEY, latest_version_id STRING, snapshot_version_id STRING, versions_since_snapshot INTEGER, snapshot_timestamp INTEGER, snapshot BLOB);", []).unwrap();
    c.execute("CREATE TABLE IF NOT EXISTS versions (version_id STRING PRIMARY KEY, client_id STRING, parent_version_id STRING, history_segment BLOB);", []).unwrap();
    c.execute("CREATE INDEX IF NOT EXISTS versions_by_parent ON versions (parent_version_id);", []).unwrap();
    // (a) affinity of STRING columns
    for t in ["00000000-0000-0000-0000-000000000000", "12345678901234567890123456789012", "1234567890123456789012345678e012", "0012", "abc"] {
        c.execute("INSERT OR REPLACE INTO clients (client_id, latest_version_id) VALUES (?, ?)", params![t, t]).unwrap();
        let (v, ty): (Value, String) = c.query_row("SELECT client_id, typeof(client_id) FROM clients WHERE rowid = last_insert_rowid()", [], |r| Ok((r.get(0)?, r.get(1)?))).unwrap();
        println!("affinity: bound text {t:?} stored as {ty}: {v:?}");
    }
    // blob in BLOB column and text-looking blob
    c.execute("INSERT INTO versions (version_id, client_id, parent_version_id, history_segment) VALUES(?, ?, ?, ?)", params!["v1", "c", "p", b"123".to_vec()]).unwrap();
    let ty: String = c.query_row("SELECT typeof(history_segment) FROM versions WHERE version_id='v1'", [], |r| r.get(0)).unwrap();
    println!("blob '123' stored as {ty}");
    // (b) INSERT OR REPLACE nulls other columns
    c.execute("INSERT OR REPLACE INTO clients (client_id, latest_version_id) VALUES ('cx', 'l1')", []).unwrap();
    c.execute("UPDATE clients SET snapshot_version_id='s', versions_since_snapshot=3, snapshot_timestamp=5, snapshot=x'01' WHERE client_id='cx'", []).unwrap();
    c.execute("INSERT OR REPLACE INTO clients (client_id, latest_version_id) VALUES ('cx', 'l2')", []).unwrap();
    let row: (String, Option<String>, Option<i64>) = c.query_row("SELECT latest_version_id, snapshot_version_id, versions_since_snapshot FROM clients WHERE client_id='cx'", [], |r| Ok((r.get(0)?, r.get(1)?, r.get(2)?))).unwrap();
    println!("after REPLACE: {row:?}");
    // (c) NULL + 1
    c.execute("UPDATE clients SET versions_since_snapshot = versions_since_snapshot + 1 WHERE client_id='cx'", []).unwrap();
    let v: Option<i64> = c.query_row("SELECT versions_since_snapshot FROM clients WHERE client_id='cx'", [], |r| r.get(0)).unwrap();
    println!("NULL + 1 = {v:?}");
    // (d) first match among duplicates on parent (non-unique index)
    c.execute("INSERT INTO versions VALUES('a2','c','dup',x'02')", []).unwrap();
    c.execute("INSERT INTO versions VALUES('a1','c','dup',x'01')", []).unwrap();
    let first: String = c.query_row("SELECT version_id, parent_version_id, history_segment FROM versions WHERE parent_version_id = ? AND client_id = ?", params!["dup", "c"], |r| r.get(0)).unwrap();
    println!("query_row with two matches (inserted a2 then a1) returns {first}");
    // PK violation on plain INSERT
    println!("dup PK insert: {:?}", c.execute("INSERT INTO versions VALUES('a1','c','other',x'03')", []).map_err(|e| e.to_string()));
    // (e) rollback on drop
    { let c2 = Connection::open(&p).unwrap(); c2.execute("BEGIN IMMEDIATE", []).unwrap(); c2.execute("INSERT INTO versions VALUES('tmp','c','q',x'09')", []).unwrap(); }
    let n: i64 = c.query_row("SELECT count(*) FROM versions WHERE version_id='tmp'", [], |r| r.get(0)).unwrap();
    println!("rows from dropped uncommitted txn: {n}");
    // (f) BEGIN IMMEDIATE contention, and deferred BEGIN stale-snapshot write
    let a = Connection::open(&p).unwrap(); let b = Connection::open(&p).unwrap();
    b.busy_timeout(std::time::Duration::from_millis(200)).unwrap();
    a.execute("BEGIN IMMEDIATE", []).unwrap();
    println!("second BEGIN IMMEDIATE while first open: {:?}", b.execute("BEGIN IMMEDIATE", []).map_err(|e| e.to_string()));
    a.execute("COMMIT", []).unwrap();
    a.execute("BEGIN", []).unwrap(); b.execute("BEGIN", []).unwrap();
    let _: i64 = a.query_row("SELECT count(*) FROM versions", [], |r| r.get(0)).unwrap();
    let _: i64 = b.query_row("SELECT count(*) FROM versions", [], |r| r.get(0)).unwrap();
    println!("deferred a write: {:?}", a.execute("INSERT INTO versions VALUES('d1','c','x1',x'00')", []).map_err(|e| e.to_string()));
    println!("deferred a commit: {:?}", a.execute("COMMIT", []).map_err(|e| e.to_string()));
    println!("deferred b write after a committed: {:?}", b.execute("INSERT INTO versions VALUES('d2','c','x2',x'00')", []).map_err(|e| e.to_string()));
}
