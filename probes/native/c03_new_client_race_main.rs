use taskchampion_sync_server_core::*;
use taskchampion_sync_server_storage_sqlite::SqliteStorage;
use uuid::Uuid;
fn create(server: &Server, c: Uuid) -> anyhow::Result<()> { let mut t = server.txn(c)?; t.new_client(NIL_VERSION_ID)?; t.commit()?; Ok(()) }
fn race(server: Server, name: &str) {
    let c = Uuid::new_v4();
    let r1 = server.add_version(c, NIL_VERSION_ID, vec![1]);
    let r2 = server.add_version(c, NIL_VERSION_ID, vec![2]);
    println!("[{name}] R1 first try: {:?}", r1.as_ref().map_err(|e| e.to_string()));
    println!("[{name}] R2 first try: {:?}", r2.as_ref().map_err(|e| e.to_string()));
    println!("[{name}] R1 create: {:?}", create(&server, c).map_err(|e| e.to_string()));
    let a1 = server.add_version(c, NIL_VERSION_ID, vec![1]);
    println!("[{name}] R1 retry: {:?}", a1.as_ref().map_err(|e| e.to_string()));
    println!("[{name}] R2 create: {:?}", create(&server, c).map_err(|e| e.to_string()));
    let a2 = server.add_version(c, NIL_VERSION_ID, vec![2]);
    println!("[{name}] R2 retry: {:?}", a2.as_ref().map_err(|e| e.to_string()));
    println!("[{name}] child of nil now: {:?}", server.get_child_version(c, NIL_VERSION_ID).map_err(|e| e.to_string()));
    if let Ok((AddVersionResult::Ok(v1), _)) = a1 { println!("[{name}] child of v1 (R1's acknowledged version): {:?}", server.get_child_version(c, v1).map_err(|e| e.to_string())); }
}
fn main() {
    let d = tempfile::TempDir::new().unwrap();
    race(Server::new(ServerConfig::default(), SqliteStorage::new(d.path()).unwrap()), "sqlite");
    race(Server::new(ServerConfig::default(), InMemoryStorage::new()), "inmemory");
}
