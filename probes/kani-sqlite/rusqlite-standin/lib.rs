//! Bounded pure-Rust stand-in for the subset of rusqlite used by sqlite/src/lib.rs (probe).
#![allow(dead_code, static_mut_refs)]
use std::path::Path;

pub const MAXV: usize = 3;
pub const MAXC: usize = 2;
pub const BLOBMAX: usize = 2;

#[derive(Clone, Copy, PartialEq, Eq, Debug)]
pub struct Text { pub len: u8, pub b: [u8; 36] }
#[derive(Clone, Copy, PartialEq, Eq, Debug)]
pub struct Blob { pub len: u8, pub b: [u8; BLOBMAX] }
#[derive(Clone, Copy, PartialEq, Eq, Debug)]
pub enum Val { Null, Int(i64), Text(Text), Blob(Blob) }

#[derive(Clone, Copy)]
pub struct ClientRow { pub used: bool, pub client_id: Val, pub latest_version_id: Val, pub snapshot_version_id: Val, pub versions_since_snapshot: Val, pub snapshot_timestamp: Val, pub snapshot: Val }
#[derive(Clone, Copy)]
pub struct VersionRow { pub used: bool, pub version_id: Val, pub client_id: Val, pub parent_version_id: Val, pub history_segment: Val }
#[derive(Clone, Copy)]
pub struct Db { pub clients: [ClientRow; MAXC], pub versions: [VersionRow; MAXV], pub schema: bool }
pub const EMPTY_C: ClientRow = ClientRow { used: false, client_id: Val::Null, latest_version_id: Val::Null, snapshot_version_id: Val::Null, versions_since_snapshot: Val::Null, snapshot_timestamp: Val::Null, snapshot: Val::Null };
pub const EMPTY_V: VersionRow = VersionRow { used: false, version_id: Val::Null, client_id: Val::Null, parent_version_id: Val::Null, history_segment: Val::Null };
pub static mut DB: Db = Db { clients: [EMPTY_C; MAXC], versions: [EMPTY_V; MAXV], schema: false };
pub static mut WRITER: bool = false;

#[derive(Debug)]
pub enum Error { QueryReturnedNoRows, Busy, Constraint, FromSql(types::FromSqlError), Unmodelled, InvalidColumn }
impl std::fmt::Display for Error { fn fmt(&self, f: &mut std::fmt::Formatter<'_>) -> std::fmt::Result { f.write_str("rusqlite-model error") } }
impl std::error::Error for Error {}
pub type Result<T, E = Error> = std::result::Result<T, E>;

pub mod types {
    use super::Val;
    #[derive(Debug)]
    pub enum FromSqlError { InvalidType, OutOfRange(i64) }
    pub type FromSqlResult<T> = Result<T, FromSqlError>;
    #[derive(Clone, Copy)]
    pub enum ValueRef<'a> { Null, Integer(i64), Text(&'a [u8]), Blob(&'a [u8]) }
    impl<'a> ValueRef<'a> {
        pub fn as_str(&self) -> FromSqlResult<&'a str> {
            match *self { ValueRef::Text(t) => Ok(unsafe { std::str::from_utf8_unchecked(t) }), _ => Err(FromSqlError::InvalidType) }
        }
    }
    pub enum Value { Null, Integer(i64), Text(String), Blob(Vec<u8>) }
    pub enum ToSqlOutput<'a> { Borrowed(ValueRef<'a>), Owned(Value) }
    impl From<String> for ToSqlOutput<'_> { fn from(s: String) -> Self { ToSqlOutput::Owned(Value::Text(s)) } }
    pub trait ToSql { fn to_sql(&self) -> super::Result<ToSqlOutput<'_>>; }
    pub trait FromSql: Sized { fn column_result(value: ValueRef<'_>) -> FromSqlResult<Self>; }
    impl<T: ToSql + ?Sized> ToSql for &T { fn to_sql(&self) -> super::Result<ToSqlOutput<'_>> { (**self).to_sql() } }
    impl ToSql for i64 { fn to_sql(&self) -> super::Result<ToSqlOutput<'_>> { Ok(ToSqlOutput::Owned(Value::Integer(*self))) } }
    impl ToSql for u32 { fn to_sql(&self) -> super::Result<ToSqlOutput<'_>> { Ok(ToSqlOutput::Owned(Value::Integer(*self as i64))) } }
    impl ToSql for Vec<u8> { fn to_sql(&self) -> super::Result<ToSqlOutput<'_>> { Ok(ToSqlOutput::Borrowed(ValueRef::Blob(self.as_slice()))) } }
    impl FromSql for i64 { fn column_result(v: ValueRef<'_>) -> FromSqlResult<Self> { match v { ValueRef::Integer(i) => Ok(i), _ => Err(FromSqlError::InvalidType) } } }
    impl FromSql for u32 { fn column_result(v: ValueRef<'_>) -> FromSqlResult<Self> { match v { ValueRef::Integer(i) => u32::try_from(i).map_err(|_| FromSqlError::OutOfRange(i)), _ => Err(FromSqlError::InvalidType) } } }
    impl FromSql for Vec<u8> { fn column_result(v: ValueRef<'_>) -> FromSqlResult<Self> { match v { ValueRef::Blob(b) => Ok(b.to_vec()), _ => Err(FromSqlError::InvalidType) } } }
    impl<T: FromSql> FromSql for Option<T> { fn column_result(v: ValueRef<'_>) -> FromSqlResult<Self> { match v { ValueRef::Null => Ok(None), _ => T::column_result(v).map(Some) } } }
    pub(crate) fn to_val(o: ToSqlOutput<'_>) -> Val {
        fn text(s: &[u8]) -> Val { assert!(s.len() <= 36); let mut b = [0u8; 36]; let mut i = 0; while i < s.len() { b[i] = s[i]; i += 1; } Val::Text(super::Text { len: s.len() as u8, b }) }
        fn blob(s: &[u8]) -> Val { assert!(s.len() <= super::BLOBMAX); let mut b = [0u8; super::BLOBMAX]; let mut i = 0; while i < s.len() { b[i] = s[i]; i += 1; } Val::Blob(super::Blob { len: s.len() as u8, b }) }
        match o {
            ToSqlOutput::Owned(Value::Null) | ToSqlOutput::Borrowed(ValueRef::Null) => Val::Null,
            ToSqlOutput::Owned(Value::Integer(i)) | ToSqlOutput::Borrowed(ValueRef::Integer(i)) => Val::Int(i),
            ToSqlOutput::Owned(Value::Text(s)) => { let v = text(s.as_bytes()); std::mem::forget(s); v }
            ToSqlOutput::Borrowed(ValueRef::Text(s)) => text(s),
            ToSqlOutput::Owned(Value::Blob(s)) => { let v = blob(&s); std::mem::forget(s); v }
            ToSqlOutput::Borrowed(ValueRef::Blob(s)) => blob(s),
        }
    }
}
pub use types::ToSql;
use types::*;

pub const MAXP: usize = 6;
pub struct Bound { pub n: usize, pub v: [Val; MAXP] }
pub trait Params { fn bind(self) -> Result<Bound>; }
impl Params for [&(dyn ToSql + Send + Sync); 0] { fn bind(self) -> Result<Bound> { Ok(Bound { n: 0, v: [Val::Null; MAXP] }) } }
impl Params for &[&dyn ToSql] { fn bind(self) -> Result<Bound> { let mut b = Bound { n: self.len(), v: [Val::Null; MAXP] }; assert!(self.len() <= MAXP); let mut i = 0; while i < self.len() { b.v[i] = to_val(self[i].to_sql()?); i += 1; } Ok(b) } }
impl<T: ToSql> Params for [T; 1] { fn bind(self) -> Result<Bound> { let mut b = Bound { n: 1, v: [Val::Null; MAXP] }; b.v[0] = to_val(self[0].to_sql()?); Ok(b) } }
#[macro_export]
macro_rules! params { () => { &[] as &[&dyn $crate::ToSql] }; ($($p:expr),+ $(,)?) => { &[$(&$p as &dyn $crate::ToSql),+] as &[&dyn $crate::ToSql] }; }

pub struct Row<'a> { pub names: &'a [&'static str], pub vals: [Val; MAXP] }
pub trait RowIndex { fn idx(&self, names: &[&'static str]) -> Result<usize>; }
impl RowIndex for usize { fn idx(&self, names: &[&'static str]) -> Result<usize> { if *self < names.len() { Ok(*self) } else { Err(Error::InvalidColumn) } } }
impl RowIndex for &str { fn idx(&self, names: &[&'static str]) -> Result<usize> { let mut i = 0; while i < names.len() { if names[i] == *self { return Ok(i); } i += 1; } Err(Error::InvalidColumn) } }
impl Row<'_> {
    pub fn get<I: RowIndex, T: FromSql>(&self, idx: I) -> Result<T> {
        let i = idx.idx(self.names)?;
        let r = match &self.vals[i] { Val::Null => T::column_result(ValueRef::Null), Val::Int(x) => T::column_result(ValueRef::Integer(*x)), Val::Text(t) => T::column_result(ValueRef::Text(&t.b[..t.len as usize])), Val::Blob(t) => T::column_result(ValueRef::Blob(&t.b[..t.len as usize])) };
        r.map_err(Error::FromSql)
    }
}
pub trait OptionalExtension<T> { fn optional(self) -> Result<Option<T>>; }
impl<T> OptionalExtension<T> for Result<T> { fn optional(self) -> Result<Option<T>> { match self { Ok(v) => Ok(Some(v)), Err(Error::QueryReturnedNoRows) => Ok(None), Err(e) => Err(e) } } }

pub struct Connection { in_txn: std::cell::Cell<bool>, saved: std::cell::Cell<Db> }
impl Connection {
    pub fn open<P: AsRef<Path>>(_p: P) -> Result<Connection> { Ok(Connection { in_txn: std::cell::Cell::new(false), saved: std::cell::Cell::new(unsafe { DB }) }) }
    pub fn execute<P: Params>(&self, sql: &str, params: P) -> Result<usize> {
        let p = params.bind()?;
        let me = self;
        unsafe {
        if sql.len() == 15 { if WRITER { return Err(Error::Busy); } WRITER = true; me.in_txn.set(true); me.saved.set(DB); return Ok(0); }
        if sql.len() == 6 { WRITER = false; me.in_txn.set(false); return Ok(0); }
        if sql.len() == 317 || sql.len() == 134 || sql.len() == 78 { DB.schema = true; return Ok(0); }
        if sql.len() == 99 {
            let mut free = MAXV; let mut i = 0;
            while i < MAXV { if DB.versions[i].used { if DB.versions[i].version_id == p.v[0] { return Err(Error::Constraint); } } else if free == MAXV { free = i; } i += 1; }
            assert!(free < MAXV);
            DB.versions[free] = VersionRow { used: true, version_id: p.v[0], client_id: p.v[1], parent_version_id: p.v[2], history_segment: p.v[3] };
            return Ok(1);
        }
        if sql.len() == 171 {
            let mut n = 0; let mut i = 0;
            while i < MAXC { if DB.clients[i].used && DB.clients[i].client_id == p.v[1] { DB.clients[i].latest_version_id = p.v[0]; DB.clients[i].versions_since_snapshot = match DB.clients[i].versions_since_snapshot { Val::Int(x) => Val::Int(x + 1), _ => Val::Null }; n += 1; } i += 1; }
            return Ok(n);
        }
        if sql.len() == 75 {
            let mut slot = MAXC; let mut i = 0;
            while i < MAXC { if DB.clients[i].used && DB.clients[i].client_id == p.v[0] { slot = i; } i += 1; }
            if slot == MAXC { i = 0; while i < MAXC { if !DB.clients[i].used && slot == MAXC { slot = i; } i += 1; } }
            assert!(slot < MAXC);
            DB.clients[slot] = ClientRow { used: true, client_id: p.v[0], latest_version_id: p.v[1], ..EMPTY_C };
            return Ok(1);
        }
        }
        Err(Error::Unmodelled)
    }
    pub fn query_row<T, P: Params, F: FnOnce(&Row<'_>) -> Result<T>>(&self, sql: &str, params: P, f: F) -> Result<T> {
        let p = params.bind()?;
        unsafe {
        if sql.len() == 23 { return f(&Row { names: &[], vals: [Val::Null; MAXP] }); }
        if sql.len() == 113 || sql.len() == 106 {
            let by_parent = sql.len() == 113;
            let mut i = 0;
            while i < MAXV { let r = &DB.versions[i]; if r.used && (if by_parent { r.parent_version_id } else { r.version_id }) == p.v[0] && r.client_id == p.v[1] {
                let mut vals = [Val::Null; MAXP]; vals[0] = r.version_id; vals[1] = r.parent_version_id; vals[2] = r.history_segment;
                return f(&Row { names: &["version_id", "parent_version_id", "history_segment"], vals }); } i += 1; }
            return Err(Error::QueryReturnedNoRows);
        }
        if sql.len() == 262 {
            let mut i = 0;
            while i < MAXC { let r = &DB.clients[i]; if r.used && r.client_id == p.v[0] {
                let mut vals = [Val::Null; MAXP]; vals[0] = r.latest_version_id; vals[1] = r.snapshot_timestamp; vals[2] = r.versions_since_snapshot; vals[3] = r.snapshot_version_id;
                return f(&Row { names: &["latest_version_id", "snapshot_timestamp", "versions_since_snapshot", "snapshot_version_id"], vals }); } i += 1; }
            return Err(Error::QueryReturnedNoRows);
        }
        }
        Err(Error::Unmodelled)
    }
}
impl Drop for Connection { fn drop(&mut self) { if self.in_txn.get() { unsafe { DB = self.saved.get(); WRITER = false; } } } }
