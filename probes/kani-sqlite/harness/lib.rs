#![allow(dead_code, static_mut_refs)]
#[path = "/tmp/probe/repo/sqlite/src/lib.rs"]
pub mod real_sqlite;

#[cfg(kani)]
mod proofs {
    use super::real_sqlite::SqliteStorage;
    use taskchampion_sync_server_core::*;
    use uuid::Uuid;
    fn any_uuid() -> Uuid { Uuid::from_u128(kani::any()) }
    fn stub_format(_a: std::fmt::Arguments<'_>) -> String { String::new() }
    fn stub_anyhow_drop(_e: &mut anyhow::Error) {}
    fn stub_bt() -> std::backtrace::Backtrace { std::backtrace::Backtrace::disabled() }
    fn nib(c: u8) -> u8 { if c >= b'0' && c <= b'9' { c - b'0' } else if c >= b'a' && c <= b'f' { c - b'a' + 10 } else { 255 } }
    fn stub_parse(s: &str) -> Result<Uuid, uuid::Error> {
        let b = s.as_bytes();
        kani::assume(b.len() == 36 && b[8] == b'-' && b[13] == b'-' && b[18] == b'-' && b[23] == b'-');
        let pos: [usize; 16] = [0,2,4,6,9,11,14,16,19,21,24,26,28,30,32,34];
        let mut out = [0u8; 16];
        let mut i = 0;
        while i < 16 { let h = nib(b[pos[i]]); let l = nib(b[pos[i]+1]); kani::assume(h != 255 && l != 255); out[i] = (h << 4) | l; i += 1; }
        Ok(Uuid::from_bytes(out))
    }
    fn stub_mkdir<P: AsRef<std::path::Path>>(_p: P) -> std::io::Result<()> { Ok(()) }

    #[kani::proof]
    #[kani::unwind(40)]
    #[kani::stub(alloc::fmt::format, stub_format)]
    #[kani::stub(<anyhow::Error as core::ops::Drop>::drop, stub_anyhow_drop)]
    #[kani::stub(std::backtrace::Backtrace::capture, stub_bt)]
    #[kani::stub(std::fs::create_dir_all, stub_mkdir)]
    #[kani::stub(uuid::Uuid::parse_str, stub_parse)]
    fn sqlite_add_get() {
        let s = SqliteStorage::new("d").unwrap();
        let c = any_uuid();
        let v1 = any_uuid();
        let p = any_uuid();
        let b: u8 = kani::any();
        {
            let mut t = s.txn(c).unwrap();
            t.new_client(Uuid::nil()).unwrap();
            t.add_version(v1, p, vec![b]).unwrap();
            t.commit().unwrap();
        }
        let mut t = s.txn(c).unwrap();
        let got = t.get_version_by_parent(p).unwrap();
        match &got { Some(v) => { assert!(v.version_id == v1 && v.parent_version_id == p && v.history_segment.len() == 1 && v.history_segment[0] == b); } None => assert!(false) }
        let cl = t.get_client().unwrap().unwrap();
        assert!(cl.latest_version_id == v1 && cl.snapshot.is_none());
        std::mem::forget(got); std::mem::forget(t); std::mem::forget(s);
    }
}
