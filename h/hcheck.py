"""Engine H: the properties as queries over the handlers' path sets.

Every obligation is decided over ALL paths of the symbolic execution (environment outcomes forked
exhaustively, body sizes as solver integers); a violated obligation comes with the path (labels,
effects, response) that violates it."""
import os
import re
import sys

import z3

sys.path.insert(0, os.path.dirname(os.path.abspath(__file__)))
import hrun  # noqa: E402
import mirsym as ms  # noqa: E402
from mirsym import ActixErr, Agg, Response, Str, Sym  # noqa: E402

HS_CT = 'application/vnd.taskchampion.history-segment'
SNAP_CT = 'application/vnd.taskchampion.snapshot'
ID_HEADERS = ('X-Version-Id', 'X-Parent-Version-Id', 'X-Snapshot-Request')


class PathView:
    def __init__(self, handler, allow, p):
        self.handler, self.allow, self.p = handler, allow, p
        self.labels = p.labels
        self.effects = p.effects
        r = p.result
        self.kind = 'panic' if p.outcome != 'return' else 'value'
        self.status = None
        self.headers = []
        self.ctype = None
        self.body = None
        self.err = None
        if self.kind == 'value':
            if isinstance(r, Agg) and r.ty == 'Poll':
                if r.variant != 'Ready':
                    self.kind = 'pending'
                    return
                r = r.fields[0].v
            if isinstance(r, Agg) and r.ty == 'Result':
                v = r.fields[0].v
                if isinstance(v, Response):
                    self.status, self.headers, self.ctype, self.body = v.status, [(unstr(a), b) for a, b in v.headers], unstr(v.ctype), v.body
                elif isinstance(v, ActixErr):
                    self.status, self.err = v.status, v
                else:
                    self.kind = 'other'
                    self.value = v
            else:
                self.kind = 'other'
                self.value = r

    def server_effects(self):
        return [e for e in self.effects if e[0].startswith('Server::') or e[0].startswith('txn.')]

    def last_outcome(self, op):
        out = None
        for l in self.labels:
            m = re.match(r'^%s#\d+: (.*)$' % re.escape(op), l)
            if m:
                out = m.group(1)
        return out

    def realizable(self):
        """can a sequential real backend produce this path's library outcomes? (the environment
        model over-approximates: e.g. NoSuchClient again right after a successful create)"""
        nsc = [l for l in self.labels if re.match(r'^add_version#\d+: no such client', l)]
        if len(nsc) > 1 or (nsc and not nsc[0].startswith('add_version#1:')):
            return False
        if any(re.match(r'^txn.get_client#\d+: present', l) for l in self.labels):
            return False
        if nsc and any(re.match(r'^add_version#\d+: accepted, urgency (none|low)', l) for l in self.labels):
            return False  # a client created by this very request has no snapshot: urgency is high
        if any(l.startswith('txn.get_client#') and 'storage error' in l for l in self.labels):
            return True
        return True

    def request(self):
        """concrete request description for the native replay through the real App"""
        sizes = []
        if self.p.nchunks:
            sol = z3.Solver()
            for c in self.p.cons:
                sol.add(c)
            lens = [z3.Int('len_chunk%d' % i) for i in range(self.p.nchunks)]
            # prefer small bodies unless the path needs large ones
            small = [l <= 3 for l in lens] + [l >= 1 for l in lens]
            if sol.check(*small) == z3.sat or sol.check() == z3.sat:
                m = sol.model()
                sizes = [m.eval(l, model_completion=True).as_long() for l in lens]
        req = {'handler': self.handler, 'labels': list(self.labels), 'chunk_sizes': sizes}
        if self.stops_reading_early():
            req['tail_chunk'] = 2
        return req

    def stops_reading_early(self):
        """an upload handed to the library although the body stream was never seen to end"""
        up = any(e[0] in ('Server::add_version', 'Server::add_snapshot') for e in self.server_effects())
        return up and not any(l == 'body stream ends' for l in self.labels)

    def predicted(self):
        stored = None
        for e in self.server_effects():
            if e[0] in ('Server::add_version', 'Server::add_snapshot') and isinstance(e[-1], Sym) and e[-1].name == 'bytes':
                stored = [a.name for a in e[-1].args[0]]
        return {'stored_atoms': stored, 'status': self.status, 'headers': {n: (unstr(v) if isinstance(unstr(v), str) else None) for n, v in self.headers}, 'ctype': self.ctype,
                'touches_storage': bool(self.server_effects())}

    def text(self):
        return '%s[%s]: %s => %s %s %s | effects %s' % (self.handler, 'allow-list' if self.allow else 'no list', ' / '.join(self.labels[1:]),
                                                        self.status, self.headers, ('body=%r' % (self.body,)) if self.body is not None else '', [e[0] for e in self.effects])


class CtorPath:
    """a path of WebServer::new on which the stored allow-list differs from the configured one;
    replayed as: configure that list, send a well-formed request with an unlisted id"""

    def __init__(self, p):
        self.p = p
        self.labels = ['allow-list configured (empty)' if 'empty' in ' '.join(p['labels']) else 'allow-list configured'] + p['labels']
        self.kind = 'value'

    def realizable(self):
        return True

    def text(self):
        return 'WebServer::new: %s => stored allow-list %s' % (' / '.join(self.p['labels']), self.p['stored'])

    def request(self):
        return {'handler': 'get_snapshot', 'labels': ['allow-list configured (empty)', "header 'X-Client-Id' present", 'header value is visible ASCII', 'client id parses', 'get_snapshot#1: no such client'], 'chunk_sizes': []}

    def predicted(self):
        # with the list dropped the request is served: the client is unknown -> 404 after touching storage
        return {'stored_atoms': None, 'status': 404, 'headers': {}, 'ctype': None, 'touches_storage': True}


def unstr(x):
    return x.s if isinstance(x, Str) else x


def is4xx(s):
    return (isinstance(s, int) and 400 <= s <= 499) or (isinstance(s, str) and s.startswith('4xx'))


def run_all(mir_path, repo, max_chunks=3):
    prog = ms.Program(open(mir_path).read(), hrun.core_enums(repo))
    res = {'paths': {}, 'funcs': {}, 'steps': 0}
    for al in (None, 1):
        f, paths, steps = hrun.run_client_id_header(prog, al)
        res['paths'][('client_id_header', bool(al))] = paths
        res['funcs']['client_id_header'] = len(f.blocks)
        res['steps'] += steps
        for h in hrun.HANDLERS:
            f, paths, steps = hrun.run_handler(prog, h, al, max_chunks)
            res['paths'][(h, bool(al))] = [PathView(h, bool(al), p) for p in paths]
            res['funcs'][h] = len(f.blocks)
            res['steps'] += steps
    res['prog'] = prog
    res['ctor_paths'] = hrun.run_ctor(prog)
    return res


class Report:
    def __init__(self):
        self.obl = {}      # description -> 'SUCCESS' | 'FAILURE'
        self.viol = []     # (description, path text)
        self.viol_pv = []  # (description, PathView or None)
        self.witness = {}  # description -> bool

    def check(self, desc, ok, pv=None):
        if self.obl.get(desc) != 'FAILURE':
            self.obl[desc] = 'SUCCESS' if ok else 'FAILURE'
        if not ok:
            self.viol.append((desc, pv.text() if pv is not None else ''))
            self.viol_pv.append((desc, pv))

    def wit(self, desc, ok):
        self.witness[desc] = self.witness.get(desc, False) or bool(ok)


def body_total(pv, eff):
    """sum of the chunk lengths of the byte vector handed to a Server upload call"""
    b = eff[-1]
    if isinstance(b, Sym) and b.name == 'bytes':
        parts = b.args[0]
        return (z3.Sum([z3.Int('len_' + c.name) for c in parts]) if parts else z3.IntVal(0)), parts
    return None, None


def sat(cons):
    s = z3.Solver()
    s.set('timeout', 10000)
    for c in cons:
        s.add(c)
    r = s.check()
    if r == z3.unknown:
        raise ms.Unsupported('solver unknown')
    return r == z3.sat


# ------------------------------------------------------------------------------------------------

def check_c14(res, rep):
    """HTTP responses encode protocol outcomes exactly"""
    for (h, al), pvs in res['paths'].items():
        if h == 'client_id_header':
            continue
        for pv in pvs:
            rep.check('c14: no handler path panics or stays pending', pv.kind == 'value', pv)
            if pv.kind != 'value' or not pv.server_effects():
                continue
            hdr = dict(pv.headers)
            names = [n for n, _ in pv.headers]
            rep.check('c14: no header is emitted twice', len(names) == len(set(names)), pv)
            if h == 'add_version':
                o = pv.last_outcome('add_version')
                if o and o.startswith('accepted'):
                    n = max(int(m.group(1)) for m in (re.match(r'^add_version#(\d+): accepted', l) for l in pv.labels) if m)
                    exp = {'X-Version-Id': Sym('to_string', Sym('new_version_id#%d' % n))}
                    if 'urgency low' in o:
                        exp['X-Snapshot-Request'] = 'urgency=low'
                    if 'urgency high' in o:
                        exp['X-Snapshot-Request'] = 'urgency=high'
                    rep.check('c14: accepted version -> 200 with X-Version-Id (= the new id), X-Snapshot-Request: urgency=low|high exactly when a snapshot is wanted, and no other protocol header',
                              pv.status == 200 and {k: unstr(v) for k, v in hdr.items()} == exp, pv)
                    rep.wit('c14.w: accepted with urgency low', 'urgency low' in o)
                    rep.wit('c14.w: accepted with urgency none', 'urgency none' in o)
                elif o == 'conflict':
                    n = max(int(m.group(1)) for m in (re.match(r'^add_version#(\d+): conflict', l) for l in pv.labels) if m)
                    rep.check('c14: conflict -> 409 with X-Parent-Version-Id naming the current latest and no other protocol header',
                              pv.status == 409 and hdr == {'X-Parent-Version-Id': Sym('to_string', Sym('latest_version_id#%d' % n))}, pv)
                    rep.wit('c14.w: conflict', True)
                elif o == 'storage error':
                    rep.check('c14: a storage error of the library becomes 500', pv.status == 500, pv)
                elif o == 'no such client':
                    # only possible when the create-and-retry arm itself failed, or retries ran out
                    rep.check('c14: AddVersion for an unknown client creates it and retries (never 404); a failing create is a 500',
                              pv.status == 500 or any('storage error' in l for l in pv.labels), pv)
            if h == 'get_child_version':
                o = pv.last_outcome('get_child_version')
                if o == 'found':
                    rep.check('c14: found child -> 200 with both id headers, the history-segment content type and the payload',
                              pv.status == 200 and hdr == {'X-Version-Id': Sym('to_string', Sym('child_version_id')), 'X-Parent-Version-Id': Sym('to_string', Sym('child_parent_id'))}
                              and pv.ctype == HS_CT and pv.body == Sym('child_bytes'), pv)
                    rep.wit('c14.w: child found', True)
                elif o == 'not found':
                    rep.check('c14: not-found -> 404 without id headers', pv.status == 404 and not hdr, pv)
                elif o == 'gone':
                    rep.check('c14: gone -> 410 without id headers', pv.status == 410 and not hdr, pv)
                    rep.wit('c14.w: gone', True)
                elif o == 'no such client':
                    rep.check('c14: a client the server has never seen -> 404', pv.status == 404 and not hdr, pv)
                elif o == 'storage error':
                    rep.check('c14: a storage error of the library becomes 500', pv.status == 500, pv)
            if h == 'add_snapshot':
                o = pv.last_outcome('add_snapshot')
                if o == 'ok':
                    rep.check('c14: AddSnapshot -> 200 whether or not the snapshot was kept, no protocol header', pv.status == 200 and not hdr, pv)
                    rep.wit('c14.w: snapshot acknowledged', True)
                elif o == 'no such client':
                    rep.check('c14: a client the server has never seen -> 404', pv.status == 404, pv)
                elif o == 'storage error':
                    rep.check('c14: a storage error of the library becomes 500', pv.status == 500, pv)
            if h == 'get_snapshot':
                o = pv.last_outcome('get_snapshot')
                if o == 'found':
                    rep.check('c14: snapshot found -> 200 with X-Version-Id, the snapshot content type and the bytes',
                              pv.status == 200 and hdr == {'X-Version-Id': Sym('to_string', Sym('snapshot_version_id'))} and pv.ctype == SNAP_CT and pv.body == Sym('snapshot_bytes'), pv)
                    rep.wit('c14.w: snapshot found', True)
                elif o == 'none':
                    rep.check('c14: no snapshot -> 404', pv.status == 404 and not hdr, pv)
                elif o == 'no such client':
                    rep.check('c14: a client the server has never seen -> 404', pv.status == 404, pv)
                elif o == 'storage error':
                    rep.check('c14: a storage error of the library becomes 500', pv.status == 500, pv)


def check_c15(res, rep, max_size_expected=100 * 1024 * 1024):
    """malformed or oversized requests get 4xx and change nothing (handler-level part)"""
    for (h, al), pvs in res['paths'].items():
        if h == 'client_id_header':
            continue
        upload = h in ('add_version', 'add_snapshot')
        ct = HS_CT if h == 'add_version' else SNAP_CT
        reached = {1: False, 2: False, 3: False}
        for pv in pvs:
            if pv.kind != 'value':
                rep.check('c15: no request makes a handler panic', False, pv)
                continue
            se = pv.server_effects()
            storage_err = any('storage error' in l for l in pv.labels)
            if not se:
                rep.check('c15: a request refused before any library call gets a 4xx', is4xx(pv.status), pv)
            if pv.status in (400, 403, 413) or (isinstance(pv.status, str) and pv.status.startswith('4xx')):
                rep.check('c15: a request refused as malformed (400/403/payload error) has read and changed nothing: no library or storage call precedes the refusal', not se, pv)
            if isinstance(pv.status, int) and pv.status >= 500:
                rep.check('c15: a 5xx is only ever the report of a storage error, never of a malformed request', storage_err, pv)
            if se:
                rep.check('c15: the library is reached only with a client id that was present, textual and well-formed',
                          'client id parses' in pv.labels, pv)
                if upload:
                    rep.check('c15: uploads reach the library only with the endpoint\'s content type',
                              any(l == "request_content_type == '%s'" % ct for l in pv.labels), pv)
                    for e in se:
                        if e[0] in ('Server::add_version', 'Server::add_snapshot'):
                            tot, parts = body_total(pv, e)
                            rep.check('c15: what reaches the library is the request body', tot is not None, pv)
                            if tot is not None:
                                rep.check('c15: no empty body and no body above the 100 MiB limit reaches the library',
                                          not sat(pv.p.cons + [z3.Or(tot > max_size_expected, tot < 1)]), pv)
                                k = len(parts)
                                if k in reached and sat(pv.p.cons + [tot == max_size_expected]):
                                    reached[k] = True
        if upload:
            for k, okk in reached.items():
                rep.check('c15: a body of exactly the limit (100 MiB), in %d chunk(s), is accepted' % k, okk)
            # one byte above the limit, however split, is refused with 400 and reaches nothing
            for pv in pvs:
                if pv.kind == 'value' and pv.p.nchunks >= 1 and not pv.server_effects():
                    pass
            over = [pv for pv in pvs if pv.kind == 'value' and any(l.startswith('104857600 < ') or re.match(r'^\d+ < ', l) for l in pv.labels)]
            rep.check('c15: the size check exists on every chunk', len(over) >= 3)
            for pv in over:
                rep.check('c15: an oversized body is refused with 400 before any library call', pv.status == 400 and not pv.server_effects(), pv)
            rep.wit('c15.w: oversized refusal paths', len(over) >= 3)


def check_c16(res, rep):
    """the allow-list is enforced on every endpoint"""
    for (h, al), pvs in res['paths'].items():
        if h == 'client_id_header':
            for p in pvs:
                r = p.result
                okv = isinstance(r, Agg) and r.ty == 'Result' and r.variant == 'Ok'
                if okv:
                    rep.check('c16: client_id_header returns an id only if the header was present, textual and parsed, and is that parsed id',
                              'client id parses' in p.labels and r.fields[0].v == Sym('parsed_client_id'), None)
                    if al:
                        rep.check('c16: with a list, an id is returned only if the list contains it', any(l.startswith('allow-list contains') for l in p.labels), None)
                if al and any(l.startswith('allow-list lacks') for l in p.labels):
                    v = r.fields[0].v if isinstance(r, Agg) else None
                    rep.check('c16: an unlisted id is refused with 403', isinstance(v, ActixErr) and v.status == 403, None)
                    rep.wit('c16.w: unlisted id refused by the helper', True)
            continue
        for pv in pvs:
            if pv.kind != 'value':
                continue
            se = pv.server_effects()
            if se:
                # the client id argument of every library call is the parsed header value
                for e in se:
                    if e[0].startswith('Server::'):
                        rep.check('c16: every library call uses the id parsed from X-Client-Id and nothing else', e[1] == Sym('parsed_client_id'), pv)
                if al:
                    i_allow = next((i for i, l in enumerate(pv.labels) if l.startswith('allow-list contains')), None)
                    i_first = next((i for i, l in enumerate(pv.labels) if re.match(r'^(add_version|get_child_version|add_snapshot|get_snapshot|txn)', l)), None)
                    rep.check('c16: with a list, state is read or changed only after the list was found to contain the id',
                              i_allow is not None and (i_first is None or i_allow < i_first), pv)
            if al and any(l.startswith('allow-list lacks') for l in pv.labels):
                rep.check('c16: a request with an unlisted client id is refused with 403 without touching state', pv.status == 403 and not se, pv)
                rep.wit('c16.w: unlisted id refused on ' + h, True)
            if not al:
                rep.check('c16: without a list nobody is refused with 403', pv.status != 403, pv)
    # the list handed to the web server at construction is the list the handlers test
    for p in res.get('ctor_paths', []):
        arg, stored = p['arg'], p['stored']
        rep.check('c16: the allow-list given to WebServer::new is the one enforced (an empty list is still a list: it admits nobody)', arg == stored, None)
        if arg != stored:
            rep.viol_pv[-1] = (rep.viol_pv[-1][0], CtorPath(p))
        rep.wit('c16.w: constructor executed with a configured list', arg == 'Some')
    # listed clients are served exactly as if no list existed
    for h in hrun.HANDLERS:
        def norm(pvs, strip):
            out = []
            for pv in pvs:
                if strip and any(l.startswith('allow-list lacks') for l in pv.labels):
                    continue
                labels = tuple(l for l in pv.labels[1:] if not l.startswith('allow-list contains'))
                eff = tuple(e[0] for e in pv.effects if e[0] != 'allowlist_test')
                out.append((labels, eff, pv.status, repr(pv.headers), repr(pv.body)))
            return sorted(out)
        a = norm(res['paths'][(h, True)], True)
        b = norm(res['paths'][(h, False)], False)
        rep.check('c16: listed clients are served exactly as if no list existed (%s: same paths, effects and responses)' % h, a == b)


def check_c06(res, rep):
    """body chunks are concatenated in arrival order; get responses carry the returned bytes"""
    for (h, al), pvs in res['paths'].items():
        if h not in ('add_version', 'add_snapshot'):
            continue
        for pv in pvs:
            if pv.kind != 'value':
                continue
            for e in pv.server_effects():
                if e[0] in ('Server::add_version', 'Server::add_snapshot'):
                    b = e[-1]
                    okb = isinstance(b, Sym) and b.name == 'bytes'
                    if okb:
                        # compare as byte strings: chunks the path condition forces to be empty contribute nothing
                        def nonempty(name):
                            return sat(pv.p.cons + [z3.Int('len_' + name) > 0])
                        got = [c.name for c in b.args[0] if nonempty(c.name)]
                        exp = ['chunk%d' % i for i in range(pv.p.nchunks) if nonempty('chunk%d' % i)]
                        okb = got == exp
                    rep.check('c06: the bytes handed to the library are the body chunks concatenated in arrival order, nothing dropped or reordered', okb, pv)
                    rep.check('c06: the body stream is read to its end before anything is handed to the library (an empty chunk does not end the upload)', not pv.stops_reading_early(), pv)
                    rep.wit('c06.w: three-chunk body reaches the library', pv.p.nchunks == 3)


def check_c05(res, rep):
    """no storage error is turned into a success"""
    for (h, al), pvs in res['paths'].items():
        if h == 'client_id_header':
            continue
        for pv in pvs:
            if pv.kind != 'value':
                continue
            if any('storage error' in l for l in pv.labels):
                rep.check('c05: a storage error reported by the library or by the create-client transaction is answered 500, never a success', pv.status == 500, pv)
                rep.wit('c05.w: storage error path on ' + h, True)


def create_skeleton(res):
    """C03: the storage-relevant skeleton of the add-version handler's NoSuchClient arm, from the
    path set: the effect sequences between an `add_version: no such client` and the retry"""
    forms = set()
    for pv in res['paths'][('add_version', False)]:
        if pv.kind != 'value':
            continue
        eff = [e[0] for e in pv.effects]
        labels = pv.labels
        if 'add_version#1: no such client' in labels and 'add_version#2' in ' '.join(labels):
            i1 = eff.index('Server::add_version')
            i2 = eff.index('Server::add_version', i1 + 1)
            seg = tuple(eff[i1 + 1:i2])
            present = any(re.match(r'^txn.get_client#1: present', l) for l in labels)
            forms.add((seg, present))
    return sorted(forms)


# the repo's own handler unit tests as concrete paths (translator validation)
UNIT_TESTS = [
    ('add_version', 'test_success', ['add_version#1: accepted, urgency high'], [], 200, {'X-Version-Id', 'X-Snapshot-Request'}),
    ('add_version', 'test_auto_add_client', ['txn.new_client#1: ok', 'txn.commit#1: ok', 'accepted, urgency high'], [], 200, {'X-Version-Id', 'X-Snapshot-Request'}),
    ('add_version', 'test_conflict', ['add_version#1: conflict'], [], 409, {'X-Parent-Version-Id'}),
    ('add_version', 'test_bad_content_type', ["request_content_type != '%s'" % HS_CT], [], 400, set()),
    ('add_version', 'test_empty_body', ['client id parses', 'body stream ends'], ['chunk 0 arrives'], 400, set()),
    ('get_child_version', 'test_success', ['get_child_version#1: found'], [], 200, {'X-Version-Id', 'X-Parent-Version-Id'}),
    ('get_child_version', 'test_client_not_found', ['get_child_version#1: no such client'], [], 404, set()),
    ('get_child_version', 'test_version_not_found_and_gone(gone)', ['get_child_version#1: gone'], [], 410, set()),
    ('get_child_version', 'test_version_not_found_and_gone(not found)', ['get_child_version#1: not found'], [], 404, set()),
    ('add_snapshot', 'test_success', ['add_snapshot#1: ok'], [], 200, set()),
    ('add_snapshot', 'test_not_added_200', ['add_snapshot#1: ok'], [], 200, set()),
    ('add_snapshot', 'test_bad_content_type', ["request_content_type != '%s'" % SNAP_CT], [], 400, set()),
    ('add_snapshot', 'test_empty_body', ['client id parses', 'body stream ends'], ['chunk 0 arrives'], 400, set()),
    ('get_snapshot', 'test_not_found', ['get_snapshot#1: none'], [], 404, set()),
    ('get_snapshot', 'test_success', ['get_snapshot#1: found'], [], 200, {'X-Version-Id'}),
]


def validate(res):
    """push the repo's handler unit tests through the path sets as concrete paths"""
    okc, errs = 0, []
    for (h, name, need, forbid, status, hdrs) in UNIT_TESTS:
        pvs = [pv for pv in res['paths'][(h, False)] if all(any(n in l for l in pv.labels) for n in need) and not any(f in pv.labels for f in forbid)
               and pv.kind == 'value' and not (name != 'test_auto_add_client' and h == 'add_version' and any('new_client' in l for l in pv.labels))
               and not any('storage error' in l or 'stream fails' in l for l in pv.labels)]
        pvs = [pv for pv in pvs if pv.last_outcome(h) in (None,) + tuple(x.split(': ', 1)[1] for x in need if ': ' in x and x.startswith(h))] or pvs
        if not pvs:
            errs.append('%s::%s: no path for %s' % (h, name, need))
            continue
        bad = [pv for pv in pvs if pv.status != status or set(n for n, _ in pv.headers) != hdrs]
        if bad:
            errs.append('%s::%s: expected %s %s, path gives %s' % (h, name, status, sorted(hdrs), bad[0].text()))
        else:
            okc += 1
    # the two helper tests
    for al, need, expect in ((False, ['client id parses'], 'Ok'), (True, ['allow-list contains parsed_client_id'], 'Ok'), (True, ['allow-list lacks parsed_client_id'], 403)):
        ps = [p for p in res['paths'][('client_id_header', al)] if all(n in p.labels for n in need)]
        good = bool(ps)
        for p in ps:
            r = p.result
            if expect == 'Ok':
                good = good and r.variant == 'Ok'
            else:
                good = good and r.variant == 'Err' and r.fields[0].v.status == expect
        if good:
            okc += 1
        else:
            errs.append('client_id_header %s' % need)
    return okc, errs


def confirms(pred, real):
    """does the real App's response equal engine H's prediction for the path?"""
    if real.get('unreplayable'):
        return None
    st = pred['status']
    if isinstance(st, int):
        if real['status'] != st:
            return False
    elif not (400 <= real['status'] <= 499):
        return False
    proto = {k: v for k, v in real['headers'].items() if k in ID_HEADERS}
    if set(proto) != set(k for k in pred['headers'] if k in ID_HEADERS):
        return False
    for k, v in pred['headers'].items():
        if v is not None and real['headers'].get(k) != v:
            return False
    if pred['ctype'] and real['headers'].get('Content-Type') != pred['ctype']:
        return False
    if pred['touches_storage'] != (real['storage_transactions'] > 0):
        return False
    if pred.get('stored_atoms') is not None and real.get('stored_pattern') and pred.get('chunk_sizes'):
        # chunk i is filled with the letter 'a'+i: the stored run-length pattern gives the order
        exp = ' '.join('%s%d' % (chr(ord('a') + int(a[5:])), pred['chunk_sizes'][int(a[5:])]) for a in pred['stored_atoms'] if pred['chunk_sizes'][int(a[5:])] > 0)
        if exp != real['stored_pattern']:
            return False
    return True
