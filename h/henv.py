"""Environment model of engine H: what each callee of the HTTP glue does.

Three kinds of callee:
  1. repo functions (`client_id_header`, `badrequest`, `failure_to_ise`, `server_error_to_actix`,
     closures) -- inlined: their own MIR is executed;
  2. std combinators with their real semantics;
  3. the environment (actix-web, uuid, futures, `Server`, `StorageTxn`): arbitrary value of the
     result type, forking over outcome classes, constrained only by the documented contract.
"""
import re

import z3

from mirsym import (NONE, STATUS_OF_BUILDER, STATUS_OF_ERR, UNIT, ActixErr, Agg, Atom, Buf, Builder, Cell, Chunk, Coroutine,
                    Opaque, Ref, Response, Str, Sym, Unsupported, err, ok, push_call, some)

REPO_FUNCS = ['client_id_header', 'badrequest', 'failure_to_ise', 'server_error_to_actix']


def deref(v):
    return v.cell.v if isinstance(v, Ref) else v


def mk_core(interp, ty, var, fields):
    t = interp.prog.core_enums[ty]
    return Agg(ty, var, t[var], fields)


def dispatch(it, st, stack, fr, dest, callee, args, ret_bb):
    c = callee
    # ---------------------------------------------------------------- repo functions (inlined)
    for name in REPO_FUNCS:
        if re.search(r'(^|::)%s$' % name, c):
            f = it.prog.funcs.get(name) or it.prog.func_by_suffix('::' + name)
            return push_call(it, stack, fr, dest, f, args, ret_bb)

    # ---------------------------------------------------------------- std combinators
    if c.endswith(' as Deref>::deref') or c.endswith(' as DerefMut>::deref_mut'):
        v = deref(args[0])
        if isinstance(v, Opaque) and v.kind in ('Data', 'Arc'):
            return Ref(v.inner)
        if isinstance(v, Buf) or (isinstance(v, Opaque) and v.kind == 'BufList'):
            return args[0]
        raise Unsupported('deref of %r' % (v,))
    if c.endswith(' as Try>::branch'):
        v = args[0]
        if isinstance(v, Agg) and v.ty == 'Result':
            if v.variant == 'Ok':
                return Agg('ControlFlow', 'Continue', 0, [v.fields[0].v])
            return Agg('ControlFlow', 'Break', 1, [err(v.fields[0].v)])
        if isinstance(v, Agg) and v.ty == 'Option':
            if v.variant == 'Some':
                return Agg('ControlFlow', 'Continue', 0, [v.fields[0].v])
            return Agg('ControlFlow', 'Break', 1, [NONE()])
        raise Unsupported('Try::branch of %r' % (v,))
    if ' as FromResidual<' in c and c.endswith('::from_residual'):
        v = args[0]
        if isinstance(v, Agg) and v.ty == 'Result' and v.variant == 'Err':
            e = v.fields[0].v
            if isinstance(e, ActixErr):
                return err(e)
            if isinstance(e, Sym) and e.name.startswith('PayloadError'):
                # actix: PayloadError implements ResponseError with a 4xx status (400, or 413 for Overflow)
                return err(ActixErr('4xx(payload error)', e))
            raise Unsupported('from_residual of error %r' % (e,))
        raise Unsupported('from_residual of %r' % (v,))
    m = re.match(r'^Result::<.*>::map_err::<', c)
    if m:
        v, f = args
        if v.variant == 'Ok':
            return v
        e = v.fields[0].v
        if isinstance(f, Sym) and f.name == 'fnitem':
            target = f.args[0]
            if target.startswith('{closure@'):
                # closure of the function being executed: find `<current>::{closure#N}` by source position
                cands = [fn for n, fn in it.prog.funcs.items() if '{closure#' in n and fn.args and fn.args[0][1] == target]
                if len(cands) != 1:
                    raise Unsupported('closure %s: %d candidates' % (target, len(cands)))
                # continuation: callee returns E2; wrap into Err afterwards -> use a trampoline dest
                return push_wrap_err(it, stack, fr, dest, cands[0], [Sym('closure_env'), e], ret_bb)
            fn = it.prog.funcs.get(target) or it.prog.func_by_suffix(target.split('::')[-1])
            return push_wrap_err(it, stack, fr, dest, fn, [e], ret_bb)
        raise Unsupported('map_err with %r' % (f,))
    if re.match(r'^Option::<.*>::ok_or_else::<', c):
        v, f = args
        if v.variant == 'Some':
            return ok(v.fields[0].v)
        if isinstance(f, Sym) and f.name == 'fnitem':
            target = f.args[0]
            if target.startswith('{closure@'):
                cands = [fn for n, fn in it.prog.funcs.items() if '{closure#' in n and fn.args and fn.args[0][1] == target]
                if len(cands) != 1:
                    raise Unsupported('closure %s: %d candidates' % (target, len(cands)))
                return push_wrap_err(it, stack, fr, dest, cands[0], [Sym('closure_env')], ret_bb)
            fn = it.prog.funcs.get(target) or it.prog.func_by_suffix(target.split('::')[-1])
            return push_wrap_err(it, stack, fr, dest, fn, [], ret_bb)
        raise Unsupported('ok_or_else with %r' % (f,))
    if re.match(r'^Option::<.*>::ok_or::<', c) or re.match(r'^Option::<.*>::ok_or$', c):
        v, e = args
        return ok(v.fields[0].v) if v.variant == 'Some' else err(e)
    # logging: environment without effect; the level filter is taken as "disabled" (the formatting
    # of a log line has no influence on the response or on storage)
    if re.search(r'<Level as PartialOrd<LevelFilter>>::(le|lt|ge|gt)$', c) or c.endswith('log::__private_api::enabled'):
        return False
    if c == 'max_level' or c.endswith('log::max_level') or c.endswith('log::__private_api::loc'):
        return Sym('log_env')
    if re.search(r'log::__private_api::log(::<.*>)?$', c):
        return UNIT
    if c.endswith('IntoFuture>::into_future') or c.startswith('Pin::<') or c.endswith('::new_unchecked'):
        return args[0]
    if c.endswith('as PartialEq>::ne') or c.endswith('as PartialEq>::eq') or re.search(r'as PartialEq<.*>>::(ne|eq)$', c):
        a, b = deref(deref(args[0])), deref(deref(args[1]))
        neg = c.endswith('::ne')
        if isinstance(a, Agg) and isinstance(b, Agg) and not a.fields and not b.fields and a.ty == b.ty and a.ty in it.prog.core_enums:
            r = a.idx == b.idx
        elif isinstance(a, Str) and isinstance(b, Str):
            r = a.s == b.s
        elif isinstance(a, Sym) and isinstance(b, Str) or isinstance(b, Sym) and isinstance(a, Str):
            s, k = (a, b) if isinstance(a, Sym) else (b, a)
            r = it.choose(st, [('%r == %r' % (s, k.s), True), ('%r != %r' % (s, k.s), False)])
        else:
            raise Unsupported('string comparison of %r, %r' % (a, b))
        return (not r) if neg else r
    m = re.search(r'<(\w+) as Partial(Eq|Ord)>::(eq|ne|lt|le|gt|ge)$', c)
    if m and m.group(1) in it.prog.core_enums:
        a, b = deref(deref(args[0])), deref(deref(args[1]))
        if not (isinstance(a, Agg) and isinstance(b, Agg) and not a.fields and not b.fields):
            raise Unsupported('comparison of %r, %r' % (a, b))
        # derive(PartialEq, PartialOrd) on a fieldless enum compares discriminants
        return {'eq': a.idx == b.idx, 'ne': a.idx != b.idx, 'lt': a.idx < b.idx, 'le': a.idx <= b.idx, 'gt': a.idx > b.idx, 'ge': a.idx >= b.idx}[m.group(3)]
    if re.search(r'fmt::rt::Argument::<.*>::new_display', c) or re.search(r'fmt::rt::Argument::<.*>::new_debug', c):
        v = args[0]
        while isinstance(v, Ref):
            v = v.cell.v
        return Sym('fmtarg', v)
    if re.search(r'Arguments::<.*>::new::<\d+, \d+>$', c):
        tmpl, arr = args[0], deref(args[1])
        if not isinstance(tmpl, bytes) or not isinstance(arr, Agg):
            raise Unsupported('format template %r' % (tmpl,))
        # template encoding of this compiler: a byte < 0x80 = length of a literal that follows,
        # 0xc0 = the next argument, 0x00 = end
        out, i, k = [], 0, 0
        while i < len(tmpl):
            b = tmpl[i]
            if b == 0:
                break
            if b < 0x80:
                out.append(Str(tmpl[i + 1:i + 1 + b].decode('utf-8', 'replace')))
                i += 1 + b
            elif b == 0xc0:
                out.append(arr.fields[k].v)
                k += 1
                i += 1
            else:
                raise Unsupported('format template byte %#x' % b)
        return Sym('fmtargs', tuple(out))
    if c in ('format', 'alloc::fmt::format', 'std::fmt::format') or c.endswith('fmt::format'):
        a = args[0]
        if isinstance(a, Sym) and a.name == 'fmtargs':
            parts = []
            for x in a.args[0]:
                if isinstance(x, Str):
                    parts.append(x.s)
                elif isinstance(x, Sym) and x.name == 'fmtarg' and isinstance(x.args[0], Str):
                    parts.append(x.args[0].s)
                else:
                    return Sym('format', a.args[0])
            return Str(''.join(parts))
        raise Unsupported('format of %r' % (a,))
    if c.startswith('must_use::<') or c.endswith('::must_use::<String>'):
        return args[0]
    if c.endswith('as ToString>::to_string'):
        return Sym('to_string', deref(args[0]))
    if re.search(r'slice::<impl \[u8\]>::to_vec$', c) or c.endswith('::to_vec'):
        v = deref(deref(args[0]))
        if isinstance(v, Buf):
            return Sym('bytes', tuple(v.parts))
        raise Unsupported('to_vec of %r' % (v,))
    if c.endswith('as From<') or ' as From<' in c and c.endswith('::from'):
        return args[0]
    if ' as Into<' in c and c.endswith('::into'):
        return args[0]

    # ---------------------------------------------------------------- actix: request side
    if c.endswith('HttpRequest::headers') or c.endswith('as HttpMessage>::headers'):
        return Ref(Cell(Opaque('HeaderMap')))
    if re.search(r'HeaderMap::get(::<.*>)?$', c):
        name = deref(args[1])
        r = it.choose(st, [('header %r absent' % (name,), None), ('header %r present' % (name,), 1)])
        if r is None:
            return NONE()
        return some(Ref(Cell(Opaque('HeaderValue', name=name))))
    if c.endswith('HeaderValue::to_str'):
        r = it.choose(st, [('header value is visible ASCII', 1), ('header value is not text', None)])
        if r is None:
            return err(Sym('ToStrError'))
        return ok(Str_sym('header_text'))
    if c.endswith('Uuid::parse_str') or c.endswith('Uuid>::parse_str'):
        r = it.choose(st, [('client id parses', 1), ('client id malformed', None)])
        if r is None:
            return err(Sym('uuid::Error'))
        return ok(Sym('parsed_client_id'))
    if re.search(r'HashSet::<.*>::contains(::<.*>)?$', c) or c.endswith('::contains::<Uuid>'):
        idv = deref(args[1])
        r = it.choose(st, [('allow-list contains %r' % (idv,), True), ('allow-list lacks %r' % (idv,), False)])
        st.effects = st.effects + [('allowlist_test', idv, r)]
        return r
    if c.endswith('as HttpMessage>::content_type'):
        return Sym('request_content_type')
    if re.search(r'Path::<.*>::into_inner$', c):
        return Sym('path_id')
    m = re.search(r'(?:^|::)Error(\w+)::<', c)
    if m and m.group(1) in STATUS_OF_ERR:
        return ActixErr(STATUS_OF_ERR[m.group(1)], args[0] if args else None)

    # ---------------------------------------------------------------- actix: body stream
    # byte containers (Bytes / BytesMut / Vec<u8> / slices): value = sequence of atoms + length
    if re.search(r'(?:^|::)(Bytes|BytesMut)::new$', c) or re.search(r'Vec::<u8>::new$', c) or re.search(r'(?:^|::)(Bytes|BytesMut)::with_capacity$', c) or re.search(r'Vec::<u8>::with_capacity$', c):
        return Buf()
    if re.search(r'(?:^|::)(Bytes|BytesMut)::len$', c) or re.search(r'Vec::<u8>::len$', c) or c.endswith('[u8]>::len'):
        return deref(args[0]).len
    if re.search(r'(?:^|::)(Bytes|BytesMut)::is_empty$', c) or re.search(r'Vec::<u8>::is_empty$', c) or c.endswith('[u8]>::is_empty'):
        return deref(args[0]).len == 0
    if re.search(r'(BytesMut|Vec::<u8>)::extend_from_slice$', c) or c.endswith('BytesMut::unsplit') or c.endswith('BufMut>::put_slice') or c.endswith('BytesMut::put_slice'):
        b, ch = deref(args[0]), deref(deref(args[1]))
        if not (isinstance(b, Buf) and isinstance(ch, Buf)):
            raise Unsupported('byte append of %r, %r' % (b, ch))
        b.len = z3.simplify(b.len + ch.len)
        b.parts = b.parts + list(ch.parts)
        return UNIT
    if c.endswith('BytesMut::freeze') or re.search(r'(Bytes|BytesMut|Vec<u8>) as (?:std::convert::)?From<.*>>::from$', c) or c.endswith('Bytes::copy_from_slice') or c.endswith('as Clone>::clone') and isinstance(deref(args[0]), Buf) \
            or re.search(r'as Index<.*Range.*>>::index$', c) and isinstance(deref(args[0]), Buf) and 'RangeFull' in c:
        v = deref(deref(args[0]))
        if not isinstance(v, Buf):
            raise Unsupported('byte conversion of %r' % (v,))
        out = v.copy()
        if 'Index<' in c:
            return Ref(Cell(out))
        return out
    if re.search(r'as Index<.*>>::index$', c) and isinstance(deref(args[0]), Buf):
        raise Unsupported('sub-slicing of a body buffer: ' + c)
    m = re.match(r'^<\{async fn body of (.+?)\(\)\} as (?:[\w:]+::)?Future>::poll$', c)
    if m:
        # `.await` of an async fn of this crate: its coroutine body is executed (same interpreter)
        body = it.prog.funcs.get(m.group(1) + '::{closure#0}')
        if body is None:
            raise Unsupported('coroutine body of ' + m.group(1))
        pin = args[0]
        if isinstance(pin, Ref):
            pin = Agg('Pin', 'Pin', 0, [pin])
        return push_call(it, stack, fr, dest, body, [pin, args[1]], ret_bb)
    # a list of byte containers (chunks kept as they arrive) and its concatenation
    if re.search(r'Vec::<(actix_web::web::|bytes::)?Bytes(Mut)?>::(new|with_capacity)$', c):
        return Opaque('BufList', items=[])
    if re.search(r'Vec::<(actix_web::web::|bytes::)?Bytes(Mut)?>::push$', c):
        lst, x = deref(args[0]), deref(args[1])
        if not (isinstance(lst, Opaque) and lst.kind == 'BufList' and isinstance(x, Buf)):
            raise Unsupported('push of %r onto %r' % (x, lst))
        lst.items = lst.items + [x.copy()]
        return UNIT
    if re.search(r'<Vec<(actix_web::web::|bytes::)?Bytes(Mut)?> as Deref(Mut)?>::deref(_mut)?$', c):
        return args[0]
    if re.search(r'slice::<impl \[(actix_web::web::|bytes::)?Bytes(Mut)?\]>::concat(::<u8>)?$', c):
        lst = deref(deref(args[0]))
        if not (isinstance(lst, Opaque) and lst.kind == 'BufList'):
            raise Unsupported('concat of %r' % (lst,))
        out = Buf()
        for x in lst.items:
            out.parts = out.parts + list(x.parts)
            out.len = z3.simplify(out.len + x.len)
        return out
    if c.endswith('BytesMut::split'):
        b = deref(args[0])
        if not isinstance(b, Buf):
            raise Unsupported('split of %r' % (b,))
        out = b.copy()
        b.parts = []
        b.len = z3.IntVal(0)
        return out
    if c.endswith('BytesMut::clear') or re.search(r'Vec::<u8>::clear$', c):
        b = deref(args[0])
        if isinstance(b, Buf):
            b.parts = []
            b.len = z3.IntVal(0)
            return UNIT
    if c.endswith('as StreamExt>::next'):
        return Opaque('NextFuture')
    if c.endswith('as futures::Future>::poll') or c.endswith('as Future>::poll'):
        alts = [('body stream ends', 'end'), ('body stream fails', 'fail')]
        if st.nchunks < it.max_chunks:
            alts.insert(0, ('chunk %d arrives' % st.nchunks, 'chunk'))
        r = it.choose(st, alts)
        if r == 'end':
            return Agg('Poll', 'Ready', 0, [NONE()])
        if r == 'fail':
            return Agg('Poll', 'Ready', 0, [some(err(Sym('PayloadError#%d' % st.nchunks)))])
        ch = Chunk(st.nchunks)
        st.nchunks += 1
        # a chunk has a non-negative length; actix never yields more than the address space
        st.cons = st.cons + [ch.len >= 0, ch.len <= 2 ** 40]
        return Agg('Poll', 'Ready', 0, [some(ok(ch))])

    # ---------------------------------------------------------------- actix: response side
    m = re.search(r'http_codes::<impl HttpResponse>::(\w+)$', c) or re.search(r'HttpResponse::(\w+)$', c)
    if m and m.group(1) in STATUS_OF_BUILDER:
        return Builder(STATUS_OF_BUILDER[m.group(1)])
    if re.search(r'HttpResponseBuilder::content_type(::<.*>)?$', c):
        b = deref(args[0])
        b.ctype = deref(args[1])
        return args[0]
    if re.search(r'HttpResponseBuilder::(append_header|insert_header)(::<.*>)?$', c):
        b = deref(args[0])
        h = args[1]
        if not (isinstance(h, Agg) and len(h.fields) == 2):
            raise Unsupported('header argument %r' % (h,))
        b.headers = b.headers + [(deref(h.fields[0].v), deref(h.fields[1].v))]
        return args[0]
    if re.search(r'HttpResponseBuilder::body(::<.*>)?$', c):
        b = deref(args[0])
        return Response(b.status, list(b.headers), b.ctype, args[1])
    if c.endswith('HttpResponseBuilder::finish'):
        b = deref(args[0])
        return Response(b.status, list(b.headers), b.ctype, None)

    # ---------------------------------------------------------------- the protocol library
    m = re.search(r'(?:^|::)Server::(add_version|get_child_version|add_snapshot|get_snapshot|txn)$', c)
    if m:
        op = m.group(1)
        a = [deref(x) if isinstance(x, Ref) and isinstance(deref(x), (Sym, Str)) else x for x in args[1:]]
        # a byte container handed over by value (Vec<u8> built by clone/collect/to_vec alike): its content
        a = [Sym('bytes', tuple(x.parts)) if isinstance(x, Buf) else x for x in a]
        st.effects = st.effects + [('Server::' + op,) + tuple(a)]
        n = sum(1 for e in st.effects if e[0] == 'Server::' + op)
        tag = '%s#%d' % (op, n)
        if op == 'add_version':
            alts = [('%s: accepted, urgency none' % tag, ('ok', 'None')), ('%s: accepted, urgency low' % tag, ('ok', 'Low')),
                    ('%s: accepted, urgency high' % tag, ('ok', 'High')), ('%s: conflict' % tag, ('conflict', None)),
                    ('%s: no such client' % tag, ('nsc', None)), ('%s: storage error' % tag, ('other', None))]
            # bound on retries: after 3 NoSuchClient answers the environment stops answering so
            if n > 3:
                alts = [x for x in alts if x[1][0] != 'nsc']
            k, u = it.choose(st, alts)
            if k == 'ok':
                return ok(Agg('tuple', 'tuple', 0, [mk_core(it, 'AddVersionResult', 'Ok', [Sym('new_version_id#%d' % n)]), mk_core(it, 'SnapshotUrgency', u, [])]))
            if k == 'conflict':
                return ok(Agg('tuple', 'tuple', 0, [mk_core(it, 'AddVersionResult', 'ExpectedParentVersion', [Sym('latest_version_id#%d' % n)]), mk_core(it, 'SnapshotUrgency', 'None', [])]))
            if k == 'nsc':
                return err(mk_core(it, 'ServerError', 'NoSuchClient', []))
            return err(mk_core(it, 'ServerError', 'Other', [Sym('anyhow#%s' % tag)]))
        if op == 'get_child_version':
            k = it.choose(st, [('%s: found' % tag, 'found'), ('%s: not found' % tag, 'nf'), ('%s: gone' % tag, 'gone'),
                               ('%s: no such client' % tag, 'nsc'), ('%s: storage error' % tag, 'other')])
            if k == 'found':
                return ok(mk_core(it, 'GetVersionResult', 'Success', [Sym('child_version_id'), Sym('child_parent_id'), Sym('child_bytes')]))
            if k == 'nf':
                return ok(mk_core(it, 'GetVersionResult', 'NotFound', []))
            if k == 'gone':
                return ok(mk_core(it, 'GetVersionResult', 'Gone', []))
            if k == 'nsc':
                return err(mk_core(it, 'ServerError', 'NoSuchClient', []))
            return err(mk_core(it, 'ServerError', 'Other', [Sym('anyhow#%s' % tag)]))
        if op == 'add_snapshot':
            k = it.choose(st, [('%s: ok' % tag, 'ok'), ('%s: no such client' % tag, 'nsc'), ('%s: storage error' % tag, 'other')])
            if k == 'ok':
                return ok(UNIT)
            if k == 'nsc':
                return err(mk_core(it, 'ServerError', 'NoSuchClient', []))
            return err(mk_core(it, 'ServerError', 'Other', [Sym('anyhow#%s' % tag)]))
        if op == 'get_snapshot':
            k = it.choose(st, [('%s: found' % tag, 'found'), ('%s: none' % tag, 'none'), ('%s: no such client' % tag, 'nsc'), ('%s: storage error' % tag, 'other')])
            if k == 'found':
                return ok(some(Agg('tuple', 'tuple', 0, [Sym('snapshot_version_id'), Sym('snapshot_bytes')])))
            if k == 'none':
                return ok(NONE())
            if k == 'nsc':
                return err(mk_core(it, 'ServerError', 'NoSuchClient', []))
            return err(mk_core(it, 'ServerError', 'Other', [Sym('anyhow#%s' % tag)]))
        if op == 'txn':
            k = it.choose(st, [('%s: begun' % tag, 'ok'), ('%s: storage error' % tag, 'other')])
            if k == 'ok':
                return ok(Opaque('Txn', n=n))
            return err(mk_core(it, 'ServerError', 'Other', [Sym('anyhow#%s' % tag)]))
    m = re.search(r'StorageTxn.*::(get_client|new_client|commit|add_version|set_snapshot)$', c)
    if m:
        op = m.group(1)
        a = [deref(x) if isinstance(x, Ref) and isinstance(deref(x), (Sym, Str)) else x for x in args[1:]]
        st.effects = st.effects + [('txn.' + op,) + tuple(a)]
        n = sum(1 for e in st.effects if e[0] == 'txn.' + op)
        tag = 'txn.%s#%d' % (op, n)
        if op == 'get_client':
            k = it.choose(st, [('%s: absent' % tag, 'none'), ('%s: present' % tag, 'some'), ('%s: storage error' % tag, 'err')])
            if k == 'none':
                return ok(NONE())
            if k == 'some':
                return ok(some(Opaque('Client')))
            return err(Sym('anyhow#%s' % tag))
        k = it.choose(st, [('%s: ok' % tag, 'ok'), ('%s: storage error' % tag, 'err')])
        return ok(UNIT) if k == 'ok' else err(Sym('anyhow#%s' % tag))
    if re.search(r'(?:^|::)Server::new::<', c):
        return Opaque('Server')
    if re.search(r'Arc::<.*>::new$', c):
        return Opaque('Arc', inner=Cell(args[0]))
    if re.search(r'HashSet::<.*>::is_empty$', c):
        r = it.choose(st, [('allow-list is empty', True), ('allow-list is not empty', False)])
        return r
    if re.search(r'Option::<.*>::filter::<', c):
        o, f = args
        if o.variant == 'None':
            return o
        if isinstance(f, Sym) and f.name == 'fnitem' and f.args[0].startswith('{closure@'):
            cands = [fn for n, fn in it.prog.funcs.items() if '{closure#' in n and fn.args and fn.args[0][1] == f.args[0]]
            if len(cands) == 1:
                # continuation: keep the option iff the predicate returns true
                caller = stack.pop()
                stack.append((caller[0], caller[1], ('filter_keep', dest, o), ret_bb))
                nfr = {}
                for (loc, _ty), v in zip(cands[0].args, [Sym('closure_env'), Ref(o.fields[0])]):
                    nfr[loc] = Cell(v)
                stack.append((cands[0], nfr, 'bb0', 0))
                return 'PUSHED'
        raise Unsupported('Option::filter with %r' % (f,))
    if re.search(r'Option::<Result<.*>>::transpose$', c):
        o = args[0]
        if o.variant == 'None':
            return ok(NONE())
        r = o.fields[0].v
        return ok(some(r.fields[0].v)) if r.variant == 'Ok' else err(r.fields[0].v)
    if re.search(r'Option::<(actix_web::web::|bytes::)?Bytes>::unwrap_or_default$', c):
        o = args[0]
        return o.fields[0].v if o.variant == 'Some' else Buf()
    if re.search(r'Option::<.*>::is_none$', c):
        return deref(args[0]).variant == 'None'
    if re.search(r'Option::<.*>::is_some$', c):
        return deref(args[0]).variant == 'Some'
    if re.search(r'Box<dyn .*StorageTxn.*> as DerefMut>::deref_mut$', c) or 'as DerefMut>::deref_mut' in c:
        return args[0]
    # any other function DEFINED IN THIS CRATE (a helper a refactoring pulled out): inlined
    name = re.sub(r'::<[^<>]*>$', '', c)
    if name in it.prog.funcs and not name.endswith('::service'):
        return push_call(it, stack, fr, dest, it.prog.funcs[name], args, ret_bb)
    raise Unsupported('call to ' + c)


def Str_sym(name):
    return Sym(name)


def push_wrap_err(it, stack, fr, dest, func, args, ret_bb):
    """call `func(args)` and store Err(result) into dest: done by a synthetic continuation cell"""
    tmp = ('local', '__maperr_tmp_%d' % len(stack))

    # after the callee returns into tmp, a synthetic block wraps it; emulate with a post-hook list
    caller = stack.pop()
    stack.append((caller[0], caller[1], ('wrap_err', dest), ret_bb))
    nfr = {}
    for (loc, _ty), v in zip(func.args, args):
        nfr[loc] = Cell(v)
    stack.append((func, nfr, 'bb0', 0))
    return 'PUSHED'
