"""Engine I: the in-memory backend (`core/src/inmemory.rs`) refines the storage contract.

Each `StorageTxn` method of `InnerTxn` (and `txn`, `commit`, `drop`) is executed symbolically over
its MIR from the current dump, from an ARBITRARY bounded pre-state that satisfies the
representation invariant INV (one inductive step; INV is re-established by every method inside its
precondition), with the `HashMap`s as the environment (h/ienv.py). For every path the obligations
of the storage contract (core/src/storage.rs, the same contract engine K's ModelStorage
implements) are discharged by z3: `unsat(path condition AND INV AND NOT obligation)`.
A satisfiable query yields a concrete pre-state + arguments; they are loaded into the REAL
`InMemoryStorage` (a copy of the current source text with an appended accessor module, compiled
natively), the method is called through the real `txn()`, and the violation is reported only if
the native post-state/result falsifies the same obligation.

Bounds: <= 2 client entries, <= 2 snapshot-data entries, <= 3 version entries, <= 3 child entries
in the pre-state (every entry optionally absent, all keys symbolic 128-bit values, so the
transaction's client may be any of them or none); payloads and timestamps are opaque tokens;
versions_since < u32::MAX."""
import itertools
import json
import os
import re
import sys
import time

import z3

HERE = os.path.dirname(os.path.abspath(__file__))
sys.path.insert(0, HERE)
import mirsym as ms  # noqa: E402
from mirsym import NONE, UNIT, Agg, Cell, Interp, Opaque, Program, Ref, State, Sym, Unsupported  # noqa: E402
import ienv  # noqa: E402
from ienv import SymMap  # noqa: E402

NCL, NSN, NVE, NCH = 2, 2, 3, 3
U128 = lambda n: z3.BitVec(n, 128)  # noqa: E731
SEGW, TSW = 16, 32


# -------------------------------------------------------------------------------------------------
# struct layouts, read from the current source (field order = MIR field index)

def struct_fields(src, name):
    m = re.search(r'struct %s(?:<[^>]*>)?\s*\{(.*?)\n\}' % name, src, re.S)
    if not m:
        raise Unsupported('struct %s not found in the source' % name)
    out = []
    for ln in m.group(1).split('\n'):
        ln = ln.split('//')[0].strip()
        mm = re.match(r'^(?:pub(?:\([^)]*\))?\s+)?(\w+)\s*:\s*(.+?),?$', ln)
        if mm:
            out.append((mm.group(1), mm.group(2)))
    return out


class Layout:
    def __init__(self, repo, strict=True):
        self.expected_repr = True
        st = open(os.path.join(repo, 'core/src/storage.rs')).read()
        im = open(os.path.join(repo, 'core/src/inmemory.rs')).read()
        self.client = [f for f, _ in struct_fields(st, 'Client')]
        self.snapshot = [f for f, _ in struct_fields(st, 'Snapshot')]
        self.version = [f for f, _ in struct_fields(st, 'Version')]
        self.inner = struct_fields(im, 'Inner')
        self.txn = [f for f, _ in struct_fields(im, 'InnerTxn')]
        want = {'client': ['latest_version_id', 'snapshot'], 'snapshot': ['version_id', 'timestamp', 'versions_since'],
                'version': ['version_id', 'parent_version_id', 'history_segment'], 'txn': ['client_id', 'guard', 'written', 'committed']}
        for k, w in want.items():
            if sorted(getattr(self, k)) != sorted(w):
                raise Unsupported('struct layout of %s changed: %s' % (k, getattr(self, k)))
        names = [f for f, _ in self.inner]
        if sorted(names) != ['children', 'clients', 'snapshots', 'versions']:
            raise Unsupported('fields of Inner changed: %s' % names)
        tys = dict(self.inner)
        exp = {'clients': r'HashMap<Uuid,Client>', 'snapshots': r'HashMap<Uuid,Vec<u8>>', 'versions': r'HashMap<\(Uuid,Uuid\),Version>', 'children': r'HashMap<\(Uuid,Uuid\),Uuid>'}
        for k, e in exp.items():
            if not re.match('^' + e + '$', tys[k].replace(' ', '')):
                # another representation of the state: the step mode (which assumes INV over THIS
                # representation) does not apply; the history mode (ihist.py) still does
                self.expected_repr = False
                if strict:
                    raise Unsupported('type of Inner.%s changed: %s' % (k, tys[k]))
        self.inner = names

    def mk(self, kind, **kw):
        order = getattr(self, kind)
        return [kw[f] for f in order]

    def get(self, kind, agg, field):
        return agg.fields[getattr(self, kind).index(field)].v


# -------------------------------------------------------------------------------------------------
# views: a map as a list of (present, [key terms], [value terms]) -- the common currency of the
# symbolic run and of the native replay

def B(x):
    return z3.BoolVal(x) if isinstance(x, bool) else x


def flat_client(L, c):
    snap = L.get('client', c, 'snapshot')
    if snap.variant == 'Some':
        s = snap.fields[0].v
        return [L.get('client', c, 'latest_version_id'), z3.BoolVal(True), L.get('snapshot', s, 'version_id'), L.get('snapshot', s, 'timestamp'), L.get('snapshot', s, 'versions_since')]
    return [L.get('client', c, 'latest_version_id'), z3.BoolVal(False), z3.BitVecVal(0, 128), z3.BitVecVal(0, TSW), z3.BitVecVal(0, 32)]


def flat_version(L, v):
    return [L.get('version', v, 'version_id'), L.get('version', v, 'parent_version_id'), L.get('version', v, 'history_segment')]


def view_of(L, inner):
    """views of the four maps of an `Inner` aggregate"""
    out = {}
    for name in ('clients', 'snapshots', 'versions', 'children'):
        mp = inner.fields[L.inner.index(name)].v
        if not isinstance(mp, SymMap):
            raise Unsupported('Inner.%s is not a map: %r' % (name, mp))
        rows = []
        for pres, key, cell in mp.entries:
            kt = ienv.key_terms(key)
            v = cell.v
            if name == 'clients':
                if not (isinstance(v, Agg) and v.ty == 'Client'):
                    raise Unsupported('client map holds %r' % (v,))
                vals = flat_client(L, v)
            elif name == 'versions':
                if not (isinstance(v, Agg) and v.ty == 'Version'):
                    raise Unsupported('version map holds %r' % (v,))
                vals = flat_version(L, v)
            else:
                if not isinstance(v, z3.ExprRef):
                    raise Unsupported('%s map holds %r' % (name, v))
                vals = [v]
            rows.append((B(pres), kt, vals))
        out[name] = rows
    return out


def found(rows, key):
    return z3.Or([z3.And(p, *[a == b for a, b in zip(k, key)]) for p, k, _ in rows] + [z3.BoolVal(False)])


def value_at(rows, key, width_like):
    """the value terms stored under key (first matching entry), zeros when absent"""
    out = []
    for j, w in enumerate(width_like):
        t = w
        for p, k, vals in reversed(rows):
            t = z3.If(z3.And(p, *[a == b for a, b in zip(k, key)]), vals[j], t)
        out.append(t)
    return out


ZERO = {'clients': [z3.BitVecVal(0, 128), z3.BoolVal(False), z3.BitVecVal(0, 128), z3.BitVecVal(0, TSW), z3.BitVecVal(0, 32)],
        'snapshots': [z3.BitVecVal(0, SEGW)], 'versions': [z3.BitVecVal(0, 128), z3.BitVecVal(0, 128), z3.BitVecVal(0, SEGW)], 'children': [z3.BitVecVal(0, 128)]}
KEYW = {'clients': 1, 'snapshots': 1, 'versions': 2, 'children': 2}


def lookup(view, name, key):
    return found(view[name], key), value_at(view[name], key, ZERO[name])


def same_lookup(a, b):
    (fa, va), (fb, vb) = a, b
    return z3.And(fa == fb, z3.Implies(fa, z3.And([x == y for x, y in zip(va, vb)])))


def updated(view, name, key, vals):
    """lookup function of `view[name]` with key |-> vals"""
    def f(q):
        hit = z3.And([a == b for a, b in zip(q, key)])
        fo, vo = lookup(view, name, q)
        return z3.Or(hit, fo), [z3.If(hit, n, o) for n, o in zip(vals, vo)]
    return f


def plain(view, name):
    return lambda q: lookup(view, name, q)


def map_is(post, name, fn, q):
    """for the arbitrary key q: post[name](q) == fn(q)"""
    return same_lookup(lookup(post, name, q), fn(q))


def fresh_key(name, tag):
    return [U128('q_%s_%s_%d' % (name, tag, i)) for i in range(KEYW[name])]


# -------------------------------------------------------------------------------------------------
# symbolic pre-state

def mk_prestate(L, shape):
    """shape: tuple of bools, one per client entry: snapshot present?"""
    cons = []
    clients = SymMap('clients')
    for i in range(NCL):
        if shape[i]:
            snap = ms.some(Agg('Snapshot', 'Snapshot', 0, L.mk('snapshot', version_id=U128('c%d_snap_vid' % i), timestamp=z3.BitVec('c%d_snap_ts' % i, TSW), versions_since=z3.BitVec('c%d_since' % i, 32))))
            cons.append(z3.BitVec('c%d_since' % i, 32) != z3.BitVecVal(0xffffffff, 32))
        else:
            snap = NONE()
        cl = Agg('Client', 'Client', 0, L.mk('client', latest_version_id=U128('c%d_latest' % i), snapshot=snap))
        clients.entries.append([z3.Bool('c%d_present' % i), U128('c%d_id' % i), Cell(cl)])
    snaps = SymMap('snapshots')
    for i in range(NSN):
        snaps.entries.append([z3.Bool('s%d_present' % i), U128('s%d_client' % i), Cell(z3.BitVec('s%d_data' % i, SEGW))])
    vers = SymMap('versions')
    for i in range(NVE):
        v = Agg('Version', 'Version', 0, L.mk('version', version_id=U128('v%d_vid' % i), parent_version_id=U128('v%d_parent' % i), history_segment=z3.BitVec('v%d_seg' % i, SEGW)))
        vers.entries.append([z3.Bool('v%d_present' % i), Agg('tuple', 'tuple', 0, [U128('v%d_kclient' % i), U128('v%d_kvid' % i)]), Cell(v)])
    ch = SymMap('children')
    for i in range(NCH):
        ch.entries.append([z3.Bool('h%d_present' % i), Agg('tuple', 'tuple', 0, [U128('h%d_kclient' % i), U128('h%d_kparent' % i)]), Cell(U128('h%d_child' % i))])
    maps = {'clients': clients, 'snapshots': snaps, 'versions': vers, 'children': ch}
    inner = Agg('Inner', 'Inner', 0, [maps[n] for n in L.inner])
    return inner, cons


def inv(view, shape_known=None):
    """representation invariant of `Inner` (assumed before, re-established after every method)"""
    cs = []
    for name, rows in view.items():
        for (p1, k1, _), (p2, k2, _) in itertools.combinations(rows, 2):
            cs.append(z3.Not(z3.And(p1, p2, *[a == b for a, b in zip(k1, k2)])))
    for p, k, vals in view['versions']:
        # the key's version id is the record's id, and the parent index points back at it
        fo, vo = lookup(view, 'children', [k[0], vals[1]])
        cs.append(z3.Implies(p, z3.And(vals[0] == k[1], fo, vo[0] == k[1])))
    for p, k, vals in view['children']:
        fo, vo = lookup(view, 'versions', [k[0], vals[0]])
        cs.append(z3.Implies(p, z3.And(fo, vo[1] == k[1])))
    for p, k, vals in view['snapshots']:
        fo, vo = lookup(view, 'clients', k)
        cs.append(z3.Implies(p, z3.And(fo, vo[1])))
    for p, k, vals in view['clients']:
        fo, _ = lookup(view, 'snapshots', k)
        cs.append(z3.Implies(z3.And(p, vals[1]), fo))
    # reachable shape (what makes a model constructible through the public API): versions belong
    # to existing clients, and a client that has versions has one of them as its latest
    for p, k, vals in view['versions']:
        fo, _ = lookup(view, 'clients', [k[0]])
        cs.append(z3.Implies(p, fo))
    for p, k, vals in view['clients']:
        mine = [z3.And(pv, kv[0] == k[0]) for pv, kv, _ in view['versions']]
        latest_is_mine = [z3.And(pv, kv[0] == k[0], kv[1] == vals[0]) for pv, kv, _ in view['versions']]
        cs.append(z3.Implies(z3.And(p, z3.Or(mine + [z3.BoolVal(False)])), z3.Or(latest_is_mine + [z3.BoolVal(False)])))
    return z3.And(cs)


# -------------------------------------------------------------------------------------------------
# results

def flat_result(L, method, rv):
    """-> dict(kind='ok'|'err'|'panic', some=bool|None, vals=[terms])"""
    if isinstance(rv, tuple) and rv[0] == 'END':
        return {'kind': 'panic', 'why': rv[2] if len(rv) > 2 else ''}
    if method == 'drop':
        return {'kind': 'ok', 'some': None, 'vals': []}
    if not (isinstance(rv, Agg) and rv.ty == 'Result'):
        raise Unsupported('%s returned %r' % (method, rv))
    if rv.variant == 'Err':
        return {'kind': 'err'}
    v = rv.fields[0].v
    if method in ('new_client', 'set_snapshot', 'add_version', 'commit'):
        return {'kind': 'ok', 'some': None, 'vals': []}
    if method == 'txn':
        return {'kind': 'ok', 'some': None, 'vals': [], 'obj': v}
    if not (isinstance(v, Agg) and v.ty == 'Option'):
        raise Unsupported('%s returned Ok(%r)' % (method, v))
    if v.variant == 'None':
        return {'kind': 'ok', 'some': False, 'vals': []}
    x = v.fields[0].v
    if method == 'get_client':
        return {'kind': 'ok', 'some': True, 'vals': flat_client(L, x)}
    if method in ('get_version', 'get_version_by_parent'):
        return {'kind': 'ok', 'some': True, 'vals': flat_version(L, x)}
    if method == 'get_snapshot_data':
        return {'kind': 'ok', 'some': True, 'vals': [x]}
    raise Unsupported('result of ' + method)


# -------------------------------------------------------------------------------------------------
# the contract, as obligations over (pre view, txn client, args, post view, result, flags)

def unchanged(pre, post, tag, names=('clients', 'snapshots', 'versions', 'children')):
    cs = []
    for n in names:
        q = fresh_key(n, tag)
        cs.append(map_is(post, n, plain(pre, n), q))
    return z3.And(cs)


def res_is(res, kind):
    return z3.BoolVal(res['kind'] == kind)


def res_some(res, flag):
    return z3.BoolVal(res['kind'] == 'ok' and res.get('some') is flag)


def res_vals_eq(res, vals):
    if res['kind'] != 'ok' or not res.get('some'):
        return z3.BoolVal(True)
    return z3.And([a == b for a, b in zip(res['vals'], vals)])


def obligations(method, pre, cid, args, post, res, flags):
    """[(name, formula)]; names start with the property they serve"""
    ob = []
    cfound, cvals = lookup(pre, 'clients', [cid])
    ob.append(('c13.imem %s: never panics on a state satisfying the invariant' % method, z3.BoolVal(res['kind'] != 'panic' or method == 'drop')))
    if res['kind'] == 'panic' and method != 'drop':
        return ob
    ob.append(('c09.imem %s: the transaction keeps the client id it was opened for' % method, flags['client_id_post'] == cid))
    if method == 'get_client':
        ob.append(('c13.imem get_client: answers Ok', res_is(res, 'ok')))
        ob.append(('c13.imem get_client: Some exactly when the client exists', res_some(res, True) == cfound))
        ob.append(('c09.imem get_client: returns the record stored under the transaction\'s client id', res_vals_eq(res, cvals)))
        ob.append(('c18.imem get_client: reads change nothing', unchanged(pre, post, 'gc')))
    elif method == 'new_client':
        latest = args[0]
        # an existing client is outside the documented precondition ("must not already exist"; the
        # SQLite backend replaces, this backend refuses): nothing is demanded there
        q = fresh_key('clients', 'nc')
        newv = [latest, z3.BoolVal(False), ZERO['clients'][2], ZERO['clients'][3], ZERO['clients'][4]]
        ob.append(('c13.imem new_client: creates exactly the record (latest, no snapshot) under the client id', z3.Implies(z3.Not(cfound), z3.And(res_is(res, 'ok'), map_is(post, 'clients', updated(pre, 'clients', [cid], newv), q)))))
        ob.append(('c09.imem new_client: nothing else changes', z3.Implies(z3.Not(cfound), unchanged(pre, post, 'nc1', ('snapshots', 'versions', 'children')))))
        ob.append(('c13.imem new_client: marks the transaction written', z3.Implies(z3.Not(cfound), flags['written_post'])))
    elif method == 'set_snapshot':
        svid, sts, ssince, data = args
        ob.append(('c13.imem set_snapshot: unknown client is an error and changes nothing', z3.Implies(z3.Not(cfound), z3.And(res_is(res, 'err'), unchanged(pre, post, 'ss0')))))
        q = fresh_key('clients', 'ss')
        newv = [cvals[0], z3.BoolVal(True), svid, sts, ssince]
        ob.append(('c11.imem set_snapshot: metadata stored as given, latest untouched', z3.Implies(cfound, z3.And(res_is(res, 'ok'), map_is(post, 'clients', updated(pre, 'clients', [cid], newv), q)))))
        q2 = fresh_key('snapshots', 'ss')
        ob.append(('c11.imem set_snapshot: data stored under the same client in the same call', z3.Implies(cfound, map_is(post, 'snapshots', updated(pre, 'snapshots', [cid], [data]), q2))))
        ob.append(('c07.imem set_snapshot: versions untouched', z3.Implies(cfound, unchanged(pre, post, 'ss1', ('versions', 'children')))))
        ob.append(('c13.imem set_snapshot: marks the transaction written', z3.Implies(cfound, flags['written_post'])))
    elif method == 'get_snapshot_data':
        v = args[0]
        match = z3.And(cfound, cvals[1], cvals[2] == v)
        sfound, svals = lookup(pre, 'snapshots', [cid])
        ob.append(('c11.imem get_snapshot_data: no bytes unless the client has a snapshot for exactly that version', z3.Implies(z3.Not(match), z3.Not(res_some(res, True)))))
        ob.append(('c11.imem get_snapshot_data: returns the bytes stored with that snapshot', z3.Implies(match, z3.And(res_is(res, 'ok'), res_some(res, True), res_vals_eq(res, svals)))))
        ob.append(('c18.imem get_snapshot_data: reads change nothing', unchanged(pre, post, 'gsd')))
    elif method == 'get_version_by_parent':
        p = args[0]
        hits = [z3.And(pp, k[0] == cid, vals[1] == p) for pp, k, vals in pre['versions']]
        ob.append(('c13.imem get_version_by_parent: answers Ok', res_is(res, 'ok')))
        ob.append(('c01.imem get_version_by_parent: Some exactly when this client has a version with that parent', res_some(res, True) == z3.Or(hits + [z3.BoolVal(False)])))
        ob.append(('c09.imem get_version_by_parent: returns that version of this client, payload included', z3.And([z3.Implies(h, res_vals_eq(res, vals)) for h, (pp, k, vals) in zip(hits, pre['versions'])] + [z3.BoolVal(True)])))
        ob.append(('c18.imem get_version_by_parent: reads change nothing', unchanged(pre, post, 'gvp')))
    elif method == 'get_version':
        v = args[0]
        vfound, vvals = lookup(pre, 'versions', [cid, v])
        ob.append(('c13.imem get_version: answers Ok', res_is(res, 'ok')))
        ob.append(('c13.imem get_version: Some exactly when this client has that version', res_some(res, True) == vfound))
        ob.append(('c09.imem get_version: returns the record of this client, payload included', res_vals_eq(res, vvals)))
        ob.append(('c18.imem get_version: reads change nothing', unchanged(pre, post, 'gv')))
    elif method == 'add_version':
        v, p, seg = args
        vfound, _ = lookup(pre, 'versions', [cid, v])
        pfound, _ = lookup(pre, 'children', [cid, p])
        ob.append(('c13.imem add_version: unknown client is an error and changes nothing', z3.Implies(z3.Not(cfound), z3.And(res_is(res, 'err'), unchanged(pre, post, 'av0')))))
        ob.append(('c07.imem add_version: a duplicate version id or a second child of the same parent is an error', z3.Implies(z3.And(cfound, z3.Or(vfound, pfound)), res_is(res, 'err'))))
        okc = z3.And(cfound, z3.Not(vfound), z3.Not(pfound))
        q = fresh_key('clients', 'av')
        newc = [v, cvals[1], cvals[2], cvals[3], z3.If(cvals[1], cvals[4] + 1, cvals[4])]
        ob.append(('c02.imem add_version: latest moves to the new id, the counter grows by exactly one iff a snapshot exists', z3.Implies(okc, z3.And(res_is(res, 'ok'), map_is(post, 'clients', updated(pre, 'clients', [cid], newc), q)))))
        q2 = fresh_key('versions', 'av')
        ob.append(('c06.imem add_version: stores exactly (id, parent, payload) under (client, id)', z3.Implies(okc, map_is(post, 'versions', updated(pre, 'versions', [cid, v], [v, p, seg]), q2))))
        q3 = fresh_key('children', 'av')
        ob.append(('c01.imem add_version: indexes the new version under (client, parent)', z3.Implies(okc, map_is(post, 'children', updated(pre, 'children', [cid, p], [v]), q3))))
        ob.append(('c11.imem add_version: snapshot data untouched', z3.Implies(okc, unchanged(pre, post, 'av1', ('snapshots',)))))
        ob.append(('c13.imem add_version: marks the transaction written', z3.Implies(okc, flags['written_post'])))
    elif method == 'commit':
        ob.append(('c13.imem commit: answers Ok and marks the transaction committed', z3.And(res_is(res, 'ok'), flags['committed_post'])))
        ob.append(('c18.imem commit: changes no record', unchanged(pre, post, 'cm')))
    elif method == 'drop':
        bad = z3.And(flags['written_pre'], z3.Not(flags['committed_pre']))
        ob.append(('c13.imem drop: panics exactly for a written, uncommitted transaction', z3.BoolVal(res['kind'] == 'panic') == bad))
    # the invariant is re-established whenever the method acted inside its precondition
    if method == 'add_version':
        vfound, _ = lookup(pre, 'versions', [cid, args[0]])
        pfound, _ = lookup(pre, 'children', [cid, args[1]])
        guard = z3.Or(z3.Not(cfound), z3.And(z3.Not(vfound), z3.Not(pfound)))
    else:
        guard = z3.BoolVal(True)
    if method != 'drop':
        ob.append(('c13.imem %s: the representation invariant is re-established' % method, z3.Implies(guard, inv(post))))
    return ob


WITNESSES = {
    'get_client': ['ok:some', 'ok:none'],
    'new_client': ['ok'],
    'set_snapshot': ['ok', 'err'],
    'get_snapshot_data': ['ok:some', 'err'],
    'get_version_by_parent': ['ok:some', 'ok:none'],
    'get_version': ['ok:some', 'ok:none'],
    'add_version': ['ok', 'err'],
    'commit': ['ok'],
    'drop': ['ok', 'panic'],
}


def res_class(res):
    if res['kind'] != 'ok':
        return res['kind']
    if res.get('some') is None:
        return 'ok'
    return 'ok:some' if res['some'] else 'ok:none'


# -------------------------------------------------------------------------------------------------
# running

def method_func(prog, name):
    if name == 'drop':
        c = [f for n, f in prog.funcs.items() if n.startswith('inmemory::') and n.endswith('::drop') and f.args and 'InnerTxn' in f.args[0][1]]
    else:
        c = [f for n, f in prog.funcs.items() if n.startswith('inmemory::') and n.endswith('::' + name) and f.args and 'InnerTxn' in f.args[0][1]]
    if len(c) != 1:
        raise Unsupported('inmemory method %s: %d candidates in the MIR dump' % (name, len(c)))
    return c[0]


def args_for(L, method):
    if method == 'new_client':
        a = [U128('a_latest')]
        return a, a
    if method == 'set_snapshot':
        terms = [U128('a_snap_vid'), z3.BitVec('a_snap_ts', TSW), z3.BitVec('a_snap_since', 32), z3.BitVec('a_data', SEGW)]
        snap = Agg('Snapshot', 'Snapshot', 0, L.mk('snapshot', version_id=terms[0], timestamp=terms[1], versions_since=terms[2]))
        return [snap, terms[3]], terms
    if method in ('get_snapshot_data', 'get_version'):
        a = [U128('a_vid')]
        return a, a
    if method == 'get_version_by_parent':
        a = [U128('a_parent')]
        return a, a
    if method == 'add_version':
        a = [U128('a_vid'), U128('a_parent'), z3.BitVec('a_seg', SEGW)]
        return a, a
    return [], []


MODEL_BUDGET = 150   # extra models per (method, shape) task, spent only on violated obligations


def id_atoms(shape):
    out = []
    for i in range(NCL):
        out += [U128('c%d_id' % i), U128('c%d_latest' % i)]
        if shape[i]:
            out.append(U128('c%d_snap_vid' % i))
    for i in range(NVE):
        out += [U128('v%d_kvid' % i), U128('v%d_parent' % i)]
    return out


METHODS = ['get_client', 'new_client', 'set_snapshot', 'get_snapshot_data', 'get_version_by_parent', 'get_version', 'add_version', 'commit', 'drop']


class Result:
    def __init__(self):
        self.obl = {}          # name -> 'SUCCESS' | 'FAILURE'
        self.witness = {}      # name -> bool
        self.queries = 0
        self.solver_s = 0.0
        self.paths = {}
        self.steps = 0
        self.funcs = {}
        self.violations = []   # (name, replay request dict)
        self.witness_reqs = []  # requests whose native outcome class must equal the prediction
        self.samples = []


def solve(cons, timeout_ms=60000):
    s = z3.Solver()
    s.set('timeout', timeout_ms)
    for c in cons:
        s.add(c)
    t0 = time.time()
    r = s.check()
    return r, s, time.time() - t0


def bv(m, t):
    v = m.eval(t, model_completion=True)
    return v.as_long()


def model_to_request(m, method, shape, cid, argterms, flags):
    req = {'method': method, 'txn_client': '%032x' % bv(m, cid), 'clients': [], 'snapshots': [], 'versions': [], 'children': [], 'args': []}
    for i in range(NCL):
        if z3.is_true(m.eval(z3.Bool('c%d_present' % i), model_completion=True)):
            snap = None
            if shape[i]:
                snap = ['%032x' % bv(m, U128('c%d_snap_vid' % i)), bv(m, z3.BitVec('c%d_snap_ts' % i, TSW)), bv(m, z3.BitVec('c%d_since' % i, 32))]
            req['clients'].append(['%032x' % bv(m, U128('c%d_id' % i)), '%032x' % bv(m, U128('c%d_latest' % i)), snap])
    for i in range(NSN):
        if z3.is_true(m.eval(z3.Bool('s%d_present' % i), model_completion=True)):
            req['snapshots'].append(['%032x' % bv(m, U128('s%d_client' % i)), bv(m, z3.BitVec('s%d_data' % i, SEGW))])
    for i in range(NVE):
        if z3.is_true(m.eval(z3.Bool('v%d_present' % i), model_completion=True)):
            req['versions'].append(['%032x' % bv(m, U128('v%d_kclient' % i)), '%032x' % bv(m, U128('v%d_kvid' % i)),
                                    ['%032x' % bv(m, U128('v%d_vid' % i)), '%032x' % bv(m, U128('v%d_parent' % i)), bv(m, z3.BitVec('v%d_seg' % i, SEGW))]])
    for i in range(NCH):
        if z3.is_true(m.eval(z3.Bool('h%d_present' % i), model_completion=True)):
            req['children'].append(['%032x' % bv(m, U128('h%d_kclient' % i)), '%032x' % bv(m, U128('h%d_kparent' % i)), '%032x' % bv(m, U128('h%d_child' % i))])
    for t in argterms:
        n = bv(m, t)
        req['args'].append('%032x' % n if t.size() == 128 else n)
    interest = set()
    for d in m.decls():
        if d.arity() == 0 and isinstance(d.range(), z3.BitVecSortRef) and d.range().size() == 128:
            interest.add('%032x' % m[d].as_long())
    req['interest'] = sorted(interest)
    req['written'] = bool(z3.is_true(m.eval(flags['written_pre'], model_completion=True)))
    req['committed'] = bool(z3.is_true(m.eval(flags['committed_pre'], model_completion=True)))
    return req


# -------------------------------------------------------------------------------------------------
# native replay: the solver's model becomes a history of public-API calls; the REAL backend and a
# concrete reference implementation of the contract run it side by side

NIL = '0' * 32


class Contract:
    """concrete reference model of the StorageTxn contract (what the obligations above say)"""

    def __init__(self):
        self.clients = {}    # cid -> [latest, snap or None]   snap = [vid, ts, since]
        self.snapdata = {}   # cid -> data
        self.versions = {}   # (cid, vid) -> [vid, parent, seg]
        self.unspecified = False

    def call(self, cid, c):
        name = c[0]
        cl = self.clients.get(cid)
        if name == 'get_client':
            return {'ok': None if cl is None else [cl[0], list(cl[1]) if cl[1] else None]}
        if name == 'new_client':
            if cl is not None:
                self.unspecified = True
                return {'err': True}
            self.clients[cid] = [c[1], None]
            return {'ok': 'unit'}
        if name == 'add_version':
            if cl is None:
                return {'err': True}
            v, p, seg = c[1], c[2], c[3]
            if (cid, v) in self.versions or any(k[0] == cid and r[1] == p for k, r in self.versions.items()):
                self.unspecified = True   # outside the precondition: an error, state not prescribed
                return {'err': True}
            self.versions[(cid, v)] = [v, p, seg]
            cl[0] = v
            if cl[1]:
                cl[1][2] = (cl[1][2] + 1) & 0xffffffff
            return {'ok': 'unit'}
        if name == 'set_snapshot':
            if cl is None:
                return {'err': True}
            cl[1] = [c[1], c[2], c[3]]
            self.snapdata[cid] = c[4]
            return {'ok': 'unit'}
        if name == 'get_snapshot_data':
            if cl is None or not cl[1] or cl[1][0] != c[1]:
                return {'nobytes': True}
            return {'ok': self.snapdata.get(cid)}
        if name == 'get_version_by_parent':
            for k, r in self.versions.items():
                if k[0] == cid and r[1] == c[1]:
                    return {'ok': list(r)}
            return {'ok': None}
        if name == 'get_version':
            r = self.versions.get((cid, c[1]))
            return {'ok': list(r) if r else None}
        if name == 'commit':
            return {'ok': 'unit'}
        raise Unsupported('contract call ' + name)


def script_of(req):
    """history of public-API calls that builds the model's pre-state, performs the call and
    observes everything of interest; None if the pre-state is not constructible"""
    steps = []
    clients = {c[0]: c for c in req['clients']}
    for c, k, rec in req['versions']:
        if c not in clients or k != rec[0]:
            return None
    for cid, latest, snap in req['clients']:
        vs = [rec for c, k, rec in req['versions'] if c == cid]
        if vs and latest not in [r[0] for r in vs]:
            return None
        vs.sort(key=lambda r: r[0] == latest)
        calls = [['new_client', latest if not vs else NIL]]
        calls += [['add_version', r[0], r[1], r[2]] for r in vs]
        if snap is not None:
            data = [d for c, d in req['snapshots'] if c == cid]
            if len(data) != 1:
                return None
            calls.append(['set_snapshot', snap[0], snap[1], snap[2], data[0]])
        elif any(c == cid for c, d in req['snapshots']):
            return None
        calls.append(['commit'])
        steps.append({'client': cid, 'calls': calls})
    nbuild = len(steps)
    m = req['method']
    a = req['args']
    if m == 'drop':
        return None
    steps.append({'client': req['txn_client'], 'calls': [[m] + list(a), ['commit']]})
    ids = sorted(set(req.get('interest', [])) | {x for x in a if isinstance(x, str)} | {r[0] for _, _, r in req['versions']} | {r[1] for _, _, r in req['versions']})
    snapvids = {c[0]: c[2][0] for c in req['clients'] if c[2]}
    if m == 'set_snapshot':
        snapvids[req['txn_client']] = a[0]
    for cid in sorted(set(clients) | {req['txn_client']} | set(req.get('interest', []))):
        calls = [['get_client']] + [['get_version', v] for v in ids] + [['get_version_by_parent', v] for v in ids]
        if cid in snapvids:
            calls.append(['get_snapshot_data', snapvids[cid]])
        steps.append({'client': cid, 'calls': calls})
    return {'steps': steps, 'build_steps': nbuild}


def contract_run(script):
    c = Contract()
    out = []
    import copy
    for st in script['steps']:
        res = []
        # a step marked `abandoned` is a transaction dropped without commit: the calls answer as
        # usual, but nothing of them remains
        cc = copy.deepcopy(c) if st.get('abandoned') else c
        for call in st['calls']:
            res.append(cc.call(st['client'], call) if not cc.unspecified else {'unspecified': True})
        out.append(res)
    return out


def first_divergence(script, native):
    """(step, call, expected, got) of the first call whose native result differs from the contract"""
    exp = contract_run(script)
    for i, (e_step, n_step) in enumerate(zip(exp, native)):
        if n_step == 'panic':
            return (i, None, e_step, 'panic')
        for k, (e, n) in enumerate(zip(e_step, n_step)):
            if 'unspecified' in e:
                return None
            if 'nobytes' in e:
                if 'err' in n or n.get('ok', 0) is None:
                    continue
                return (i, script['steps'][i]['calls'][k], e, n)
            if e != n:
                return (i, script['steps'][i]['calls'][k], e, n)
    if len(native) < len(exp):
        return (len(native), None, None, 'missing')
    return None


def run_scripts(vreplay, scripts, tag='imem', backend='imem'):
    """-> list of native results (one per script) or None"""
    import subprocess
    import tempfile
    with tempfile.NamedTemporaryFile('w', suffix='.json', prefix=tag, delete=False) as f:
        json.dump({'scripts': scripts}, f)
        path = f.name
    try:
        p = subprocess.run([vreplay, backend, path], stdout=subprocess.PIPE, stderr=subprocess.PIPE, timeout=180)
        return json.loads(p.stdout.decode().strip().split('\n')[-1])['results']
    except Exception:  # noqa: BLE001
        return None
    finally:
        os.unlink(path)


_PROG = {}


def run_task(task):
    """one (method, pre-state shape): all paths, all obligations; returns plain data"""
    mir_path, repo, method, shape = task
    if mir_path not in _PROG:
        _PROG[mir_path] = Program(open(mir_path).read(), {})
    prog = _PROG[mir_path]
    L = Layout(repo)
    out = {'method': method, 'shape': shape, 'obl': {}, 'classes': [], 'paths': 0, 'queries': 0, 'solver_s': 0.0, 'steps': 0, 'violations': [], 'samples': [], 'witnesses': [], 'error': None}
    try:
        f = method_func(prog, method)
        out['blocks'] = len(f.blocks)
        inner, pcons = mk_prestate(L, shape)
        cid = U128('txn_client')
        wpre, cpre = z3.Bool('txn_written'), z3.Bool('txn_committed')
        guard = Opaque('Guard', inner=Cell(inner))
        vals = {'client_id': cid, 'guard': guard, 'written': wpre, 'committed': cpre}
        txn = Agg('InnerTxn', 'InnerTxn', 0, [vals[n] for n in L.txn])
        callargs, argterms = args_for(L, method)
        pre = view_of(L, inner)
        invpre = inv(pre)
        it = Interp(prog, dispatch=ienv.dispatch)
        st = State()
        st.cons = list(pcons) + [invpre]
        st.root = txn
        res = it.run_function(f, [Ref(Cell(txn))] + callargs, st)
        out['steps'] = it.steps
        classes = set()
        budget = [MODEL_BUDGET]
        for (s, rv) in res:
            out['paths'] += 1
            tx = s.root
            inner_post = tx.fields[L.txn.index('guard')].v.inner.v
            post = view_of(L, inner_post)
            result = flat_result(L, method, rv)
            flags = {'client_id_post': tx.fields[L.txn.index('client_id')].v, 'written_pre': wpre, 'committed_pre': cpre,
                     'written_post': B(tx.fields[L.txn.index('written')].v), 'committed_post': B(tx.fields[L.txn.index('committed')].v)}
            r0, s0, secs = solve(s.cons)
            out['queries'] += 1
            out['solver_s'] += secs
            if r0 != z3.sat:
                if r0 == z3.unknown:
                    raise Unsupported('solver unknown on a path condition of ' + method)
                continue
            if res_class(result) not in classes and method != 'drop':
                wreq = model_to_request(s0.model(), method, shape, cid, argterms, flags)
                wreq['predicted'] = res_class(result)
                out['witnesses'].append(wreq)
            classes.add(res_class(result))
            for name, formula in obligations(method, pre, cid, argterms, post, result, flags):
                r, solver, secs = solve(s.cons + [z3.Not(formula)])
                out['queries'] += 1
                out['solver_s'] += secs
                if r == z3.unknown:
                    raise Unsupported('solver unknown on %s' % name)
                if r == z3.unsat:
                    out['obl'].setdefault(name, 'SUCCESS')
                    continue
                out['obl'][name] = 'FAILURE'
                # several models per violated obligation, differing in the ALIASING PATTERN of the
                # ids (which id of the request equals which stored id, which ids two clients share):
                # whether a violation shows through the public API usually depends on exactly that
                def record(m):
                    req = model_to_request(m, method, shape, cid, argterms, flags)
                    req['obligation'] = name
                    req['path'] = [str(x) for x in s.labels[-6:]]
                    out['violations'].append((name, req))
                record(solver.model())
                req_atoms = [cid] + [t for t in argterms if t.size() == 128]
                st_atoms = id_atoms(shape)
                pairs = [(x, y) for x in req_atoms for y in st_atoms] + list(itertools.combinations(st_atoms, 2))
                for x, y in pairs:
                    if budget[0] <= 0:
                        break
                    solver.push()
                    solver.add(x == y)
                    t1 = time.time()
                    r2 = solver.check()
                    out['queries'] += 1
                    out['solver_s'] += time.time() - t1
                    if r2 == z3.sat:
                        record(solver.model())
                        budget[0] -= 1
                    solver.pop()
            if len(out['samples']) < 1 and s.labels:
                out['samples'].append({'engine': 'I', 'method': method, 'snapshot_shape': list(shape), 'path': [str(x) for x in s.labels[-4:]], 'result': res_class(result)})
        out['classes'] = sorted(classes)
    except Unsupported as ex:
        out['error'] = 'unsupported: %s' % ex
    except Exception as ex:  # noqa: BLE001
        import traceback
        out['error'] = 'internal: %r %s' % (ex, traceback.format_exc()[-600:])
    return out


def _worker_init():
    """a pool worker must not inherit the runner's clean-up: its SIGTERM handler kills the solver
    processes the runner has started (the handler and the list of live children are copied by
    fork, and closing the pool sends SIGTERM to the workers)"""
    import signal
    signal.signal(signal.SIGTERM, signal.SIG_DFL)
    signal.signal(signal.SIGINT, signal.SIG_DFL)
    c = sys.modules.get('vlib.common')
    if c is not None:
        c._LIVE.clear()


def run_all(mir_path, repo, methods=METHODS, jobs=None):
    import multiprocessing as mp
    Layout(repo)  # layout problems surface here, once
    R = Result()
    R.errors = []
    t_start = time.time()
    tasks = [(mir_path, repo, m, shape) for m in methods for shape in itertools.product([False, True], repeat=NCL)]
    jobs = jobs or min(12, os.cpu_count() or 4)
    with mp.get_context('fork').Pool(jobs, initializer=_worker_init) as pool:
        # (a worker that dies would make a plain map() wait forever)
        outs = pool.map_async(run_task, tasks, chunksize=1).get(timeout=int(os.environ.get('VERIF_I_TIMEOUT', '600')))
    classes = {}
    for o in outs:
        m = o['method']
        if o['error']:
            R.errors.append('%s: %s' % (m, o['error']))
            continue
        R.funcs['core/src/inmemory.rs: InnerTxn::' + m] = o.get('blocks', 0)
        R.paths[m] = R.paths.get(m, 0) + o['paths']
        R.queries += o['queries']
        R.solver_s += o['solver_s']
        R.steps += o['steps']
        for k, v in o['obl'].items():
            if v == 'FAILURE' or k not in R.obl:
                R.obl[k] = v
        R.violations += [tuple(x) for x in o['violations']]
        R.witness_reqs += o['witnesses']
        R.samples += o['samples'][:1] if len(R.samples) < 6 else []
        classes.setdefault(m, set()).update(o['classes'])
    for m in methods:
        for w in WITNESSES.get(m, []):
            R.witness['c13.imem.cov %s: outcome %s reachable' % (m, w)] = w in classes.get(m, set())
    R.wall = time.time() - t_start
    return R


def native_class(method, r):
    if r == 'panic':
        return 'panic'
    if 'err' in r:
        return 'err'
    v = r.get('ok')
    if method in ('new_client', 'set_snapshot', 'add_version', 'commit'):
        return 'ok'
    return 'ok:none' if v is None else 'ok:some'


def validate(R, vreplay):
    """translator validation: every witness model (one per method, snapshot shape and outcome
    class) is run as a public-API history on the REAL backend; its outcome class must be the one
    the symbolic path predicted and the whole history must agree with the contract model.
    -> (number validated, [errors])"""
    scripts, reqs = [], []
    for req in R.witness_reqs:
        sc = script_of(req)
        if sc is None:
            continue
        scripts.append(sc)
        reqs.append(req)
    if not scripts:
        return 0, ['no witness model was constructible through the public API']
    nat = run_scripts(vreplay, scripts)
    if nat is None:
        return 0, ['vreplay imem failed']
    errs, n = [], 0
    for req, sc, res in zip(reqs, scripts, nat):
        k = sc['build_steps']
        got = native_class(req['method'], res[k][0]) if len(res) > k and res[k] != 'panic' else 'panic'
        if got != req['predicted']:
            errs.append('%s: predicted %s, real backend %s on %s' % (req['method'], req['predicted'], got, json.dumps(sc['steps'][:k + 1])[:400]))
            continue
        d = first_divergence(sc, res)
        if d is not None:
            errs.append('%s: real backend and contract model disagree at step %s call %s: contract %s, real %s' % (req['method'], d[0], d[1], d[2], d[3]))
            continue
        n += 1
    return n, errs


def confirm(R, vreplay, limit=3000):
    """-> {obligation: (request, script, divergence)} for the violated obligations that reproduce
    as a concrete public-API history on the real backend"""
    by = {}
    for name, req in R.violations:
        by.setdefault(name, []).append(req)
    out, tried = {}, {}
    for name, reqs in by.items():
        scripts, rr = [], []
        for req in reqs[:limit]:
            sc = script_of(req)
            if sc is not None:
                scripts.append(sc)
                rr.append(req)
        tried[name] = len(scripts)
        if not scripts:
            continue
        nat = run_scripts(vreplay, scripts)
        if nat is None:
            continue
        for req, sc, res in zip(rr, scripts, nat):
            d = first_divergence(sc, res)
            if d is not None:
                out[name] = (req, sc, {'step': d[0], 'call': d[1], 'contract': d[2], 'real': d[3]})
                break
    return out, tried


if __name__ == '__main__':
    mir = sys.argv[1]
    repo = sys.argv[2] if len(sys.argv) > 2 else '/repo'
    methods = sys.argv[3].split(',') if len(sys.argv) > 3 else METHODS
    R = run_all(mir, repo, methods)
    for e in R.errors:
        print('ERROR', e)
    for k, v in R.obl.items():
        print(v, k)
    for k, v in R.witness.items():
        print('WITNESS', v, k)
    print('paths', R.paths, 'queries', R.queries, 'solver %.1fs wall %.1fs steps %d' % (R.solver_s, R.wall, R.steps))
    vreplay = os.path.join(HERE, '..', '.build', 'replay-target', 'debug', 'vreplay')
    print('validated', validate(R, vreplay))
    conf, tried = confirm(R, vreplay)
    for n, (req, sc, d) in conf.items():
        print('CONFIRMED', n, json.dumps(d)[:400])
    print('tried', tried)
