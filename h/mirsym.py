"""Engine H: MIR-level symbolic execution of the HTTP glue (server/src/api/*.rs).

The handler coroutine bodies and `client_id_header` are executed over rustc's MIR with
  * repo functions inlined (their own MIR),
  * a fixed table of std combinators with their real semantics (Try::branch, FromResidual,
    map_err, Deref ...),
  * everything else -- actix, uuid, futures, the `Server` entry points -- as the ENVIRONMENT: each
    callee is a function of this file that returns an arbitrary value of its result type (forking
    over its outcome classes) constrained only by its documented contract, and logs effects.
Integers that matter (body sizes) are z3 terms; forks on them are pruned with the solver.
The result for a function is its finite path set: (labels, constraints, effect log, result).
Anything the interpreter does not know raises Unsupported (the check is then inconclusive)."""
import copy
import os
import re
import sys

sys.path.insert(0, os.path.join(os.path.dirname(os.path.abspath(__file__)), '..', 'm'))
from mirlib import parse_functions, split_top  # noqa: E402

import z3  # noqa: E402


class Unsupported(Exception):
    pass


# ---------------------------------------------------------------------------------------------
# values

class Cell:
    def __init__(self, v=None):
        self.v = v


class Ref:
    def __init__(self, cell):
        self.cell = cell

    def __repr__(self):
        return 'Ref(%r)' % (self.cell.v,)


class Agg:
    """enum variant / tuple / struct: fields are Cells"""

    def __init__(self, ty, variant, idx, fields):
        self.ty, self.variant, self.idx = ty, variant, idx
        self.fields = [f if isinstance(f, Cell) else Cell(f) for f in fields]

    def __repr__(self):
        return '%s::%s(%s)' % (self.ty, self.variant, ', '.join(repr(f.v) for f in self.fields))


class Coroutine:
    def __init__(self, upvars):
        self.state = 0
        self.fields = {i: Cell(v) for i, v in enumerate(upvars)}
        self.variants = {}

    def variant_cell(self, name, idx):
        d = self.variants.setdefault(name, {})
        if idx not in d:
            d[idx] = Cell(None)
        return d[idx]


class Opaque:
    def __init__(self, kind, **kw):
        self.kind = kind
        self.__dict__.update(kw)

    def __repr__(self):
        return '<%s>' % self.kind


class Sym:
    """an uninterpreted term"""

    def __init__(self, name, *args):
        self.name, self.args = name, args

    def __eq__(self, o):
        return isinstance(o, Sym) and self.name == o.name and self.args == o.args

    def __hash__(self):
        return hash((self.name, self.args))

    def __repr__(self):
        return self.name + ('(' + ', '.join(map(repr, self.args)) + ')' if self.args else '')


class Str:
    def __init__(self, s):
        self.s = s

    def __eq__(self, o):
        return isinstance(o, Str) and self.s == o.s

    def __hash__(self):
        return hash(self.s)

    def __repr__(self):
        return repr(self.s)


class ActixErr:
    def __init__(self, status, cause):
        self.status, self.cause = status, cause

    def __repr__(self):
        return 'ActixErr(%s, %r)' % (self.status, self.cause)


class Builder:
    def __init__(self, status):
        self.status = status
        self.headers = []
        self.ctype = None


class Response:
    def __init__(self, status, headers, ctype, body):
        self.status, self.headers, self.ctype, self.body = status, headers, ctype, body

    def __repr__(self):
        return 'Response(%s, %r, %r, body=%r)' % (self.status, self.headers, self.ctype, self.body)


class Atom:
    """an opaque run of bytes (one body chunk as it arrived)"""

    def __init__(self, name):
        self.name = name

    def __repr__(self):
        return self.name


class Buf:
    """any byte container (Bytes, BytesMut, Vec<u8>, &[u8]): a length (z3 Int) and the sequence of
    atoms it consists of. Containers are values; mutation happens through the Ref to their cell."""

    def __init__(self, parts=None, length=None):
        self.parts = list(parts or [])
        self.len = length if length is not None else z3.IntVal(0)

    def copy(self):
        return Buf(self.parts, self.len)

    def __repr__(self):
        return 'bytes(%s)' % ', '.join(map(repr, self.parts))


def Chunk(n):
    return Buf([Atom('chunk%d' % n)], z3.Int('len_chunk%d' % n))


UNIT = Agg('()', '()', 0, [])

RESULT = {'Ok': 0, 'Err': 1}
OPTION = {'None': 0, 'Some': 1}
CFLOW = {'Continue': 0, 'Break': 1}
POLL = {'Ready': 0, 'Pending': 1}
ENUMS = {'Result': RESULT, 'Option': OPTION, 'ControlFlow': CFLOW, 'Poll': POLL}


def ok(v):
    return Agg('Result', 'Ok', 0, [v])


def err(v):
    return Agg('Result', 'Err', 1, [v])


def some(v):
    return Agg('Option', 'Some', 1, [v])


NONE = lambda: Agg('Option', 'None', 0, [])  # noqa: E731

STATUS_OF_ERR = {'BadRequest': 400, 'Unauthorized': 401, 'Forbidden': 403, 'NotFound': 404, 'MethodNotAllowed': 405,
                 'Conflict': 409, 'Gone': 410, 'PayloadTooLarge': 413, 'UnsupportedMediaType': 415,
                 'InternalServerError': 500, 'NotImplemented': 501, 'BadGateway': 502, 'ServiceUnavailable': 503}
STATUS_OF_BUILDER = {'Ok': 200, 'Created': 201, 'Accepted': 202, 'NoContent': 204, 'BadRequest': 400, 'Forbidden': 403,
                     'NotFound': 404, 'Conflict': 409, 'Gone': 410, 'InternalServerError': 500, 'PayloadTooLarge': 413}


# ---------------------------------------------------------------------------------------------
# program

CONST_BODY_RE = re.compile(r'^const (.+?): ([^:]+?) = \{$')
CONST_LINE_RE = re.compile(r'^const (\S+): (.+?) = const (.+);$')


class Program:
    def __init__(self, mir_text, core_enums):
        self.funcs = {f.name: f for f in parse_functions(mir_text)}
        self.consts = {}
        self.core_enums = core_enums  # enum name -> {variant: idx}
        self.promoted = {}
        lines = mir_text.split('\n')
        i = 0
        while i < len(lines):
            ln = lines[i]
            m = CONST_LINE_RE.match(ln)
            if m:
                self.consts[m.group(1)] = ('lit', m.group(3))
            m = CONST_BODY_RE.match(ln)
            if m:
                body = []
                j = i + 1
                while j < len(lines) and lines[j] != '}':
                    body.append(lines[j])
                    j += 1
                self.consts[m.group(1)] = ('body', '\n'.join(body))
                i = j
            i += 1

    def func_by_suffix(self, suffix):
        c = [f for n, f in self.funcs.items() if n.endswith(suffix)]
        if len(c) != 1:
            raise Unsupported('function %s: %d candidates' % (suffix, len(c)))
        return c[0]

    def const_value(self, name):
        """value of a const item; integer consts with a body are evaluated"""
        key = None
        for k in self.consts:
            if k == name or name.endswith('::' + k) or k.endswith('::' + name.split('::', 1)[-1]):
                if name.split('::')[-1] == k.split('::')[-1] and (k.split('::')[-2:] == name.split('::')[-2:] or '::' not in k):
                    key = k
        if key is None:
            cands = [k for k in self.consts if k.split('::')[-1] == name.split('::')[-1]]
            if len(cands) == 1:
                key = cands[0]
        if key is None:
            if name.endswith('NIL_VERSION_ID'):
                return Sym('NIL_VERSION_ID')
            raise Unsupported('const ' + name)
        kind, txt = self.consts[key]
        if kind == 'lit':
            return parse_literal(txt)
        # tiny evaluator for integer const bodies: _N = const K; _N = (Mul|Add)WithOverflow(a, b); _N = move (_M.0)
        env = {}
        for ln in txt.split('\n'):
            ln = ln.strip().rstrip(';')
            m = re.match(r'^(_\d+) = (\w+)WithOverflow\((.+), (.+)\)$', ln)
            if m:
                a, b = [self_int(env, x) for x in (m.group(3), m.group(4))]
                r = {'Mul': a * b, 'Add': a + b, 'Sub': a - b}[m.group(2)]
                env[m.group(1)] = (r, False)
                continue
            m = re.match(r'^(_\d+) = (?:move|copy) \((_\d+)\.0: \w+\)$', ln)
            if m:
                env[m.group(1)] = env[m.group(2)][0]
                continue
            m = re.match(r'^(_\d+) = const (\d+)_\w+$', ln)
            if m:
                env[m.group(1)] = int(m.group(2))
                continue
            m = re.match(r'^(_\d+) = (?:move|copy) (_\d+)$', ln)
            if m:
                env[m.group(1)] = env[m.group(2)]
        if '_0' not in env or not isinstance(env['_0'], int):
            raise Unsupported('cannot evaluate const ' + name)
        return env['_0']


def self_int(env, txt):
    txt = txt.strip()
    m = re.match(r'^const (\d+)_\w+$', txt)
    if m:
        return int(m.group(1))
    m = re.match(r'^(?:copy|move) (_\d+)$', txt)
    if m:
        return env[m.group(1)]
    raise Unsupported('const operand ' + txt)


def parse_literal(txt):
    txt = txt.strip()
    if txt.startswith('"'):
        return Str(bytes(txt[1:-1], 'utf-8').decode('unicode_escape'))
    m = re.match(r'^(-?\d+)_(\w+)$', txt)
    if m:
        return int(m.group(1))
    if txt in ('true', 'false'):
        return txt == 'true'
    raise Unsupported('literal ' + txt)


# ---------------------------------------------------------------------------------------------
# state / path

class State:
    def __init__(self):
        self.labels = []       # human-readable branch decisions of the environment
        self.cons = []         # z3 constraints
        self.effects = []      # storage-relevant effects in order
        self.nchunks = 0
        self.fresh = 0
        self.pending = None
        self.pend_i = 0

    def sym(self, base):
        self.fresh += 1
        return Sym('%s#%d' % (base, self.fresh))


class Path:
    def __init__(self, st, result, outcome='return'):
        self.labels, self.cons, self.effects, self.result, self.outcome = st.labels, st.cons, st.effects, result, outcome
        self.nchunks = st.nchunks


class Fork(Exception):
    """raised by an environment function to ask for a fork: alternatives = [(label, value_fn)]"""

    def __init__(self, alts):
        self.alts = alts


MAXCHUNKS = 3


class Interp:
    def __init__(self, prog, max_chunks=MAXCHUNKS, dispatch=None):
        self.prog = prog
        self.dispatch = dispatch
        self.paths = []
        self.max_chunks = max_chunks
        self.steps = 0

    # ---- places
    def parse_place(self, s):
        s = s.strip()
        m = re.match(r'^_\d+$', s)
        if m:
            return ('local', s)
        if s.startswith('(*') and s.endswith(')') and self._balanced(s[2:-1]):
            return ('deref', self.parse_place(s[2:-1]))
        if s.startswith('(') and s.endswith(')'):
            inner = s[1:-1]
            # field: P.N: T   (split at the last top-level '.N: ' )
            depth = 0
            for i in range(len(inner)):
                ch = inner[i]
                if ch in '([{<':
                    depth += 1
                elif ch in ')]}':
                    depth -= 1
                elif ch == '>' and inner[i - 1] not in '-=':
                    depth -= 1
                elif ch == '.' and depth == 0:
                    m = re.match(r'^\.(\d+): ', inner[i:])
                    if m and self._balanced(inner[:i]):
                        return ('field', self.parse_place(inner[:i]), int(m.group(1)))
            m = re.match(r'^(.+) as ([\w#]+)$', inner)
            if m and self._balanced(m.group(1)):
                return ('downcast', self.parse_place(m.group(1)), m.group(2))
        raise Unsupported('place ' + s)

    @staticmethod
    def _balanced(s):
        d = 0
        for ch in s:
            if ch == '(':
                d += 1
            elif ch == ')':
                d -= 1
                if d < 0:
                    return False
        return d == 0

    def cell_of(self, fr, place, create=False):
        k = place[0]
        if k == 'local':
            if place[1] not in fr:
                fr[place[1]] = Cell(None)
            return fr[place[1]]
        if k == 'deref':
            v = self.cell_of(fr, place[1]).v
            if isinstance(v, Ref):
                return v.cell
            if isinstance(v, Opaque) and v.kind == 'Txn':
                # Box<dyn StorageTxn> -> Unique -> NonNull -> *const dyn: the object itself
                return Cell(v)
            raise Unsupported('deref of non-reference %r' % (v,))
        if k == 'field':
            base = place[1]
            idx = place[2]
            if base[0] == 'downcast':
                obj = self.cell_of(fr, base[1]).v
                if isinstance(obj, Coroutine):
                    return obj.variant_cell(base[2], idx)
                if isinstance(obj, Agg):
                    if obj.variant != base[2]:
                        raise Unsupported('downcast to %s of %r' % (base[2], obj))
                    return obj.fields[idx]
                raise Unsupported('downcast of %r' % (obj,))
            obj = self.cell_of(fr, base).v
            if isinstance(obj, Coroutine):
                return obj.fields[idx]
            if isinstance(obj, Agg):
                return obj.fields[idx]
            if isinstance(obj, Opaque) and obj.kind == 'ServerState':
                return obj.fields[idx]
            if isinstance(obj, Opaque) and obj.kind == 'Txn':
                return Cell(obj)
            raise Unsupported('field %d of %r' % (idx, obj))
        if k == 'downcast':
            return self.cell_of(fr, place[1])
        raise Unsupported('place kind ' + k)

    # ---- operands
    def operand(self, fr, o):
        o = o.strip()
        if o.startswith('no_retag '):
            o = o[len('no_retag '):]
        if o.startswith('copy ') or o.startswith('move '):
            return self.cell_of(fr, self.parse_place(o[5:])).v
        if o.startswith('const '):
            c = o[6:].strip()
            if c.startswith('"') or re.match(r'^-?\d+_\w+$', c) or c in ('true', 'false'):
                return parse_literal(c)
            if c.startswith('b"'):
                import ast
                return ast.literal_eval(c)
            if c.startswith('ZeroSized: '):
                return Sym('fnitem', c[len('ZeroSized: '):])
            if 'promoted[' in c:
                return Ref(Cell(self.promoted_value(c)))
            if re.match(r'^[\w:<> ]+$', c):
                return self.prog.const_value(c)
            # fn items passed by name (map_err(…, server_error_to_actix))
            return Sym('fnitem', c)
        if re.match(r'^[A-Za-z_][\w:]*$', o) and not re.match(r'^(copy|move|const)\b', o):
            return Sym('fnitem', o)
        raise Unsupported('operand ' + o)

    def promoted_value(self, c):
        """promoted constants of the handlers (`&CONST` of a content-type string): the const item
        `<handler>::...::{closure#0}::promoted[N]` whose body is `_1 = const PATH; _0 = &_1`"""
        m = re.match(r'^<api::(\w+)::service as .*::promoted\[(\d+)\]$', c)
        if not m:
            # any other promoted constant: the const item whose name ends with the same
            # `function[::{closure#k}]::promoted[N]`
            mt = re.search(r'::(\w+(?:::\{closure#\d+\})?::promoted\[\d+\])$', c)
            keys = [k for k in self.prog.consts if mt and k.endswith('::' + mt.group(1))] if mt else []
            if len(keys) != 1:
                raise Unsupported('promoted constant ' + c)
        else:
            keys = [k for k in self.prog.consts if k.startswith(m.group(1) + '::') and k.endswith('::promoted[%s]' % m.group(2))]
        if len(keys) != 1:
            raise Unsupported('promoted constant %s: %d bodies' % (c, len(keys)))
        txt = self.prog.consts[keys[0]][1]
        mm = re.search(r'_1 = const (.+);', txt)
        if not mm:
            mu = re.search(r'_1 = ([A-Z]\w*);', txt)
            if mu and not self.prog.core_enums:
                return Sym(mu.group(1))  # a unit struct (`&Utc`)
            me = re.search(r'_[01] = (?:[\w:]+::)?(\w+);', txt)
            if me:
                owners = [(ty, t) for ty, t in self.prog.core_enums.items() if me.group(1) in t]
                if len(owners) == 1:
                    ty, t = owners[0]
                    return Agg(ty, me.group(1), t[me.group(1)], [])
            raise Unsupported('promoted body ' + keys[0])
        v = mm.group(1).strip()
        if v.startswith('"'):
            return parse_literal(v)
        if v.startswith('log::'):
            return Sym(v)
        return self.prog.const_value(v)

    # ---- rvalues
    def rvalue(self, st, fr, rv):
        rv = rv.strip()
        if rv.startswith('&'):
            p = rv[1:].strip()
            if p.startswith('mut '):
                p = p[4:]
            if p.startswith('raw '):
                raise Unsupported('raw ref')
            return Ref(self.cell_of(fr, self.parse_place(p)))
        m = re.match(r'^discriminant\((.+)\)$', rv)
        if m:
            v = self.cell_of(fr, self.parse_place(m.group(1))).v
            if isinstance(v, Coroutine):
                return v.state
            if isinstance(v, Agg):
                return v.idx
            raise Unsupported('discriminant of %r' % (v,))
        m = re.match(r'^(\w+)\((.*)\)$', rv)
        if m and m.group(1) in ('Gt', 'Ge', 'Lt', 'Le', 'Eq', 'Ne', 'Add', 'Sub', 'AddWithOverflow', 'SubWithOverflow', 'Not', 'BitAnd', 'BitOr'):
            args = [self.operand(fr, a) for a in split_top(m.group(2))]
            return self.arith(m.group(1), args)
        if rv.startswith('no_retag '):
            rv = rv[len('no_retag '):]
        if rv.startswith('[') and rv.endswith(']'):
            return Agg('array', 'array', 0, [self.operand(fr, a) for a in split_top(rv[1:-1])])
        if rv.startswith(('copy ', 'move ', 'const ')):
            mc = re.match(r'^(.+?) as (.+) \((\w+)(\(.*\))?\)$', rv)
            if mc:
                # casts: pointer coercions and integer widenings keep the value
                if mc.group(3) in ('IntToInt', 'PointerCoercion', 'Transmute', 'PtrToPtr') or mc.group(3).startswith('PointerCoercion'):
                    v = self.operand(fr, mc.group(1))
                    if mc.group(3) == 'IntToInt' and isinstance(v, z3.BitVecRef):
                        w = {'i64': 64, 'u64': 64, 'usize': 64, 'isize': 64, 'u32': 32, 'i32': 32, 'u16': 16, 'u8': 8}.get(mc.group(2).strip())
                        if w and w > v.size():
                            return z3.ZeroExt(w - v.size(), v)
                        if w and w < v.size():
                            return z3.Extract(w - 1, 0, v)
                    return v
                raise Unsupported('cast ' + rv)
            return self.operand(fr, rv)
        m = re.match(r'^\((.*)\)$', rv)
        if m and not rv.startswith('(*'):
            return Agg('tuple', 'tuple', 0, [self.operand(fr, a) for a in split_top(m.group(1))])
        # enum / struct aggregate: Path::<..>::Variant(args) | Path::Variant
        m = re.match(r'^([\w:]+?)(?:::<.*?>)?::(\w+)(?:\((.*)\))?$', rv)
        if m:
            ty = m.group(1).split('::')[-1]
            var = m.group(2)
            table = ENUMS.get(ty) or self.prog.core_enums.get(ty)
            if table and var in table:
                args = [self.operand(fr, a) for a in split_top(m.group(3))] if m.group(3) else []
                return Agg(ty, var, table[var], args)
        if re.match(r'^[A-Z]\w*$', rv):
            return Sym(rv)  # unit struct (RangeFull ...)
        mts = re.match(r'^([A-Z]\w*)\((.*)\)$', rv)
        if mts and not mts.group(1) in ('Gt', 'Ge', 'Lt', 'Le', 'Eq', 'Ne', 'Add', 'Sub', 'Not', 'BitAnd', 'BitOr', 'Mul', 'Div', 'Rem', 'Shl', 'Shr', 'Neg', 'Len', 'Cast'):
            # tuple struct constructor: StoredUuid(copy _2)
            return Agg(mts.group(1), mts.group(1), 0, [self.operand(fr, a) for a in split_top(mts.group(2))])
        if re.match(r'^log::(Level|LevelFilter)::\w+$', rv) or re.match(r'^log::__private_api::\w+$', rv):
            return Sym(rv)  # logging is environment without effect
        mco = re.match(r'^\{coroutine@[^}]*\}(?: \{ (.*) \})?$', rv)
        if mco:
            # the state machine of an `async fn` of the crate: its captured arguments, unresumed
            ups = [self.operand(fr, fld.split(':', 1)[1]) for fld in split_top(mco.group(1))] if mco.group(1) else []
            return Coroutine(ups)
        mcl = re.match(r'^(\{closure@[^}]*\}) \{ (.*) \}$', rv)
        if mcl:
            # a capturing closure: its environment, fields in capture order
            vals = [self.operand(fr, fld.split(':', 1)[1]) for fld in split_top(mcl.group(2))]
            a = Agg('closure', mcl.group(1), 0, vals)
            return a
        ms_ = re.match(r'^([\w:]+) \{ (.*) \}$', rv)
        if ms_:
            # struct literal: fields in declaration order
            name = ms_.group(1).split('::')[-1]
            vals = []
            for fld in split_top(ms_.group(2)):
                vals.append(self.operand(fr, fld.split(':', 1)[1]))
            if name == 'ServerState':
                o = Opaque('ServerState')
                o.fields = [Cell(v) for v in vals]
                return o
            return Agg(name, name, 0, vals)
        raise Unsupported('rvalue ' + rv)

    def arith(self, op, a):
        def z(x):
            if isinstance(x, bool):
                return z3.BoolVal(x)
            return z3.IntVal(x) if isinstance(x, int) else x
        if all(isinstance(x, (int, bool)) and not isinstance(x, z3.ExprRef) for x in a):
            x = a[0]
            y = a[1] if len(a) > 1 else None
            return {'Gt': lambda: x > y, 'Ge': lambda: x >= y, 'Lt': lambda: x < y, 'Le': lambda: x <= y, 'Eq': lambda: x == y, 'Ne': lambda: x != y,
                    'Add': lambda: x + y, 'Sub': lambda: x - y, 'Not': lambda: not x, 'BitAnd': lambda: x and y, 'BitOr': lambda: x or y,
                    'AddWithOverflow': lambda: Agg('tuple', 'tuple', 0, [x + y, False]), 'SubWithOverflow': lambda: Agg('tuple', 'tuple', 0, [x - y, x < y])}[op]()
        if any(not isinstance(x, (int, bool, z3.ExprRef)) for x in a):
            raise Unsupported('arithmetic on %r' % (a,))
        bvs = [x for x in a if isinstance(x, z3.BitVecRef)]
        if bvs:
            # machine integers kept at their width (engine I: counters, ids): unsigned semantics
            w = bvs[0].size()
            x = a[0] if isinstance(a[0], z3.BitVecRef) else z3.BitVecVal(a[0], w)
            y = (a[1] if isinstance(a[1], z3.BitVecRef) else z3.BitVecVal(a[1], w)) if len(a) > 1 else None
            tab = {'Eq': lambda: x == y, 'Ne': lambda: x != y, 'Add': lambda: x + y, 'Sub': lambda: x - y,
                   'Gt': lambda: z3.UGT(x, y), 'Ge': lambda: z3.UGE(x, y), 'Lt': lambda: z3.ULT(x, y), 'Le': lambda: z3.ULE(x, y),
                   'AddWithOverflow': lambda: Agg('tuple', 'tuple', 0, [x + y, z3.ULT(x + y, x)]),
                   'SubWithOverflow': lambda: Agg('tuple', 'tuple', 0, [x - y, z3.ULT(x, y)])}
            if op not in tab:
                raise Unsupported('bit-vector operation ' + op)
            return tab[op]()
        x = z(a[0])
        y = z(a[1]) if len(a) > 1 else None
        if op == 'AddWithOverflow':
            # usize addition: overflow iff the mathematical sum exceeds 2^64-1
            return Agg('tuple', 'tuple', 0, [x + y, x + y > z3.IntVal(2 ** 64 - 1)])
        return {'Gt': lambda: x > y, 'Ge': lambda: x >= y, 'Lt': lambda: x < y, 'Le': lambda: x <= y, 'Eq': lambda: x == y, 'Ne': lambda: x != y,
                'Add': lambda: x + y, 'Sub': lambda: x - y, 'Not': lambda: z3.Not(x), 'BitAnd': lambda: z3.And(x, y), 'BitOr': lambda: z3.Or(x, y)}[op]()

    # ---- running
    def feasible(self, cons):
        s = z3.Solver()
        s.set('timeout', 60000)
        for c in cons:
            s.add(c)
        r = s.check()
        if r == z3.unknown:
            raise Unsupported('solver unknown on a path condition')
        return r == z3.sat

    def run_function(self, func, args, st):
        """execute func to completion from state st; yields (st, return value) per path (generator
        implemented with explicit worklist so that forks copy the whole state)"""
        fr = {}
        for (loc, _ty), v in zip(func.args, args):
            fr[loc] = Cell(v)
        work = [(st, [(func, fr, 'bb0', 0)])]
        out = []
        while work:
            st, stack = work.pop()
            res = self.run_stack(st, stack, work)
            if res is not None:
                out.append(res)
        return out

    def statement(self, st, fr, s):
        if s.startswith(('StorageLive', 'StorageDead', 'nop', 'FakeRead', 'PlaceMention', 'Retag', 'AscribeUserType', 'Coverage', 'ConstEvalCounter', '//')):
            return
        m = re.match(r'^discriminant\((.+)\) = (\d+);$', s)
        if m:
            v = self.cell_of(fr, self.parse_place(m.group(1))).v
            if isinstance(v, Coroutine):
                v.state = int(m.group(2))
                return
            raise Unsupported('set discriminant of %r' % (v,))
        m = re.match(r'^(.+?) = (.+);$', s)
        if not m:
            raise Unsupported('statement ' + s)
        val = self.rvalue(st, fr, m.group(2))
        self.cell_of(fr, self.parse_place(m.group(1))).v = val

    def _replayed(self, st):
        """decisions already taken inside the terminator being (re-)executed are replayed in order"""
        q = getattr(st, 'pending', None)
        if q and st.pend_i < len(q):
            label, c = q[st.pend_i]
            st.pend_i += 1
            if label:
                st.labels = st.labels + [label]
            return True, c
        return False, None

    def choose(self, st, alts):
        """environment nondeterminism: alts = [(label, value)]; first visit forks, the re-execution
        in each alternative replays the decisions taken so far"""
        hit, c = self._replayed(st)
        if hit:
            return c
        if len(alts) == 1:
            # recorded as well: the decision log of a terminator must list EVERY decision, or a
            # re-execution would hand a later decision's answer to this call
            self._record(st, alts[0][0], alts[0][1])
            if alts[0][0]:
                st.labels = st.labels + [alts[0][0]]
            return alts[0][1]
        raise Fork(alts)

    def _record(self, st, label, value):
        st.pending = list(getattr(st, 'pending', None) or []) + [(None, value)]
        st.pend_i = len(st.pending)

    def branch_on(self, st, cond, label):
        """fork on a z3 condition, pruned by the solver; returns the python bool for this state"""
        if isinstance(cond, bool):
            return cond
        hit, c = self._replayed(st)
        if hit:
            st.cons = st.cons + [cond if c else z3.Not(cond)]
            return c
        t = self.feasible(st.cons + [cond])
        f = self.feasible(st.cons + [z3.Not(cond)])
        if t and f:
            raise Fork([('%s' % label, True), ('not %s' % label, False)])
        if t:
            self._record(st, None, True)
            st.cons = st.cons + [cond]
            return True
        if f:
            self._record(st, None, False)
            st.cons = st.cons + [z3.Not(cond)]
            return False
        return None

    def terminator(self, st, stack, func, fr, bb, term):
        t = term.rstrip(';').strip()
        if t == 'return':
            return 'RETURN'
        if t in ('unreachable', 'resume', 'abort') or t.startswith('resume'):
            return 'DEAD'
        m = re.match(r'^goto -> (bb\d+)$', t)
        if m:
            return m.group(1)
        m = re.match(r'^drop\((.+?)\) -> \[return: (bb\d+)', t)
        if m:
            return m.group(2)
        m = re.match(r'^assert\((!?)(.+?), ".*\) -> \[success: (bb\d+)', t, re.S)
        if m:
            c = self.operand(fr, m.group(2))
            if isinstance(c, z3.ExprRef):
                good = z3.Not(c) if m.group(1) == '!' else c
                r = self.branch_on(st, good, 'no-overflow')
                if r is None or r is False:
                    return ('END', 'panic', t[:60])
                return m.group(3)
            okv = (not c) if m.group(1) == '!' else bool(c)
            if not okv:
                return ('END', 'panic', t[:60])
            return m.group(3)
        m = re.match(r'^switchInt\((.+?)\) -> \[(.+)\]$', t)
        if m:
            v = self.operand(fr, m.group(1))
            arms = []
            for arm in m.group(2).split(','):
                k, tgt = [x.strip() for x in arm.split(':')]
                arms.append((k, tgt))
            if isinstance(v, z3.BitVecRef):
                # a machine integer: one solver-pruned decision per arm, in order
                chosen = None
                for kk, tgt in arms:
                    if kk == 'otherwise':
                        continue
                    b = self.branch_on(st, v == z3.BitVecVal(int(kk), v.size()), '%s == %s' % (v, kk))
                    if b:
                        chosen = tgt
                        break
                if chosen is None:
                    for kk, tgt in arms:
                        if kk == 'otherwise':
                            chosen = tgt
                return chosen or 'DEAD'
            if isinstance(v, z3.ExprRef):
                if not z3.is_bool(v):
                    raise Unsupported('switch on symbolic integer')
                b = self.branch_on(st, v, str(v))
                if b is None:
                    return 'DEAD'
                v = 1 if b else 0
            if isinstance(v, bool):
                v = 1 if v else 0
            if not isinstance(v, int):
                raise Unsupported('switchInt on %r' % (v,))
            for k, tgt in arms:
                if k != 'otherwise' and int(k) == v:
                    return tgt
            for k, tgt in arms:
                if k == 'otherwise':
                    return tgt
            return 'DEAD'
        k = t.rfind(') -> [return: ')
        if k > 0 and ' = ' in t[:k]:
            ret_bb = re.match(r'^\) -> \[return: (bb\d+)', t[k:]).group(1)
            # matching '(' of the argument list
            depth = 0
            j = k
            while j >= 0:
                if t[j] == ')':
                    depth += 1
                elif t[j] == '(':
                    depth -= 1
                    if depth == 0:
                        break
                j -= 1
            eq = t.index(' = ')
            dest = self.parse_place(t[:eq])
            callee = t[eq + 3:j].strip()
            argtxt = t[j + 1:k]
            args = [self.operand(fr, a) for a in split_top(argtxt)] if argtxt.strip() else []
            r = self.call(st, stack, fr, dest, callee, args, ret_bb)
            if isinstance(r, str) and r == 'PUSHED':
                return 'CONTINUE_IN_CALLEE'
            if isinstance(r, tuple) and len(r) == 2 and r[0] == 'PANIC':
                return ('END', 'panic', r[1])
            self.cell_of(fr, dest).v = r
            return ret_bb
        if re.search(r'\) -> unwind (continue|unreachable|terminate)', t) or re.search(r'\) -> \[unwind: bb\d+\]$', t) or re.search(r'\) -> unwind: bb\d+$', t):
            # a call that does not return: panic!/unreachable!/process::abort
            return ('END', 'panic', t[:80])
        raise Unsupported('terminator ' + t[:120])

    # the call dispatcher lives in a subclass-free table below
    def call(self, st, stack, fr, dest, callee, args, ret_bb):
        if self.dispatch is not None:
            return self.dispatch(self, st, stack, fr, dest, callee, args, ret_bb)
        from henv import dispatch  # late import: environment model
        return dispatch(self, st, stack, fr, dest, callee, args, ret_bb)


def run_stack_patch():
    """`terminator` returns 'CONTINUE_IN_CALLEE' when a repo function was pushed: handle in run_stack"""

    def run_stack(self, st, stack, work):
        while True:
            self.steps += 1
            if self.steps > 400000:
                raise Unsupported('step budget exhausted')
            func, fr, bb, si = stack[-1][:4]
            stmts, term = func.blocks[bb]
            try:
                while si < len(stmts):
                    self.statement(st, fr, stmts[si])
                    si += 1
                    stack[-1] = (func, fr, bb, si)
                snap = (st.effects, st.cons, st.nchunks, st.labels)
                nxt = self.terminator(st, stack, func, fr, bb, term)
            except Fork as fk:
                # the statement is re-executed in every alternative: undo its partial effects and
                # replay the decisions it had already taken, then the new one
                if 'snap' in dir():
                    st.effects, st.cons, st.nchunks, st.labels = snap
                prefix = list(getattr(st, 'pending', None) or [])
                for label, choice in fk.alts[1:]:
                    st2, stack2 = copy.deepcopy((st, stack))
                    st2.pending = prefix + [(label, choice)]
                    st2.pend_i = 0
                    work.append((st2, stack2))
                label, choice = fk.alts[0]
                st.pending = prefix + [(label, choice)]
                st.pend_i = 0
                continue
            st.pending = None
            st.pend_i = 0
            if nxt == 'CONTINUE_IN_CALLEE':
                continue
            if nxt == 'RETURN':
                rv = fr['_0'].v if '_0' in fr else UNIT
                stack.pop()
                if not stack:
                    return (st, rv)
                func2, fr2, dest, ret_bb = stack.pop()
                if dest[0] == 'wrap_err':
                    self.cell_of(fr2, dest[1]).v = err(rv)
                elif dest[0] == 'cont':
                    self.cell_of(fr2, dest[1]).v = dest[2](rv)
                elif dest[0] == 'filter_keep':
                    if isinstance(rv, z3.ExprRef):
                        # a symbolic predicate: decided here (no re-execution is involved: the callee
                        # has returned), both outcomes continue
                        t = self.feasible(st.cons + [rv])
                        f = self.feasible(st.cons + [z3.Not(rv)])
                        if t and f:
                            st2, stack2, fr3 = copy.deepcopy((st, stack, fr2))
                            st2.cons = st2.cons + [z3.Not(rv)]
                            self.cell_of(fr3, dest[1]).v = NONE()
                            stack2.append((func2, fr3, ret_bb, 0))
                            work.append((st2, stack2))
                            st.cons = st.cons + [rv]
                            rv = True
                        else:
                            rv = bool(t)
                    self.cell_of(fr2, dest[1]).v = dest[2] if rv is True else NONE()
                else:
                    self.cell_of(fr2, dest).v = rv
                stack.append((func2, fr2, ret_bb, 0))
                continue
            if nxt == 'DEAD':
                return None
            if isinstance(nxt, tuple) and nxt[0] == 'END':
                return (st, nxt)
            stack[-1] = (func, fr, nxt, 0)
    Interp.run_stack = run_stack


run_stack_patch()


def push_call(interp, stack, fr, dest, func, args, ret_bb):
    """inline a repo function: replace the caller's frame by a continuation record + callee frame"""
    caller = stack.pop()
    stack.append((caller[0], caller[1], dest, ret_bb))
    nfr = {}
    for (loc, _ty), v in zip(func.args, args):
        nfr[loc] = Cell(v)
    stack.append((func, nfr, 'bb0', 0))
    return 'PUSHED'
