"""Environment model of engine I: the real `core/src/inmemory.rs` methods executed over their MIR.

The four `std::collections::HashMap`s of `Inner` are the only environment: a map is a bounded list
of entries (present: Bool, key: bit-vector term(s), value cell) with pairwise distinct keys; `get`,
`get_mut`, `contains_key`, `insert`, `remove` have their documented semantics, and every key
comparison is a solver-pruned fork. Ids are 128-bit terms, counters 32-bit terms, payloads and
timestamps opaque tokens (16/32-bit terms the code may move and clone but not inspect).
Everything else the methods call (Option/Result combinators, Try, Clone, anyhow's constructors,
closures of the file) is executed with its real semantics; an unknown callee raises Unsupported
(the check is then inconclusive)."""
import copy
import re

import z3

from mirsym import NONE, UNIT, Agg, Cell, Opaque, Ref, Str, Sym, Unsupported, err, ok, some


class SymMap:
    """entries: list of [present (z3 Bool / python bool), key, Cell(value)]"""

    def __init__(self, name, entries=None):
        self.name = name
        self.entries = entries or []

    def __repr__(self):
        return 'Map<%s,%d>' % (self.name, len(self.entries))


def deref(v):
    while isinstance(v, Ref):
        v = v.cell.v
    return v


def key_terms(k):
    k = deref(k)
    if isinstance(k, Agg) and k.ty == 'tuple':
        out = []
        for f in k.fields:
            out += key_terms(f.v)
        return out
    if isinstance(k, z3.ExprRef):
        return [k]
    raise Unsupported('map key %r' % (k,))


def key_eq(a, b):
    ta, tb = key_terms(a), key_terms(b)
    if len(ta) != len(tb):
        raise Unsupported('map key arity')
    return z3.simplify(z3.And([x == y for x, y in zip(ta, tb)]))


def clone(v):
    """Clone::clone of a value: a structural copy (terms are immutable, cells are fresh)"""
    if isinstance(v, Agg):
        return Agg(v.ty, v.variant, v.idx, [clone(f.v) for f in v.fields])
    if isinstance(v, Ref):
        return v
    return v


def lookup(it, st, m, key, label):
    """index of the entry holding `key`, or None; forks on every comparison the solver cannot decide"""
    for i, (pres, k, _cell) in enumerate(m.entries):
        cond = key_eq(k, key)
        if not (isinstance(pres, bool) and pres):
            cond = z3.simplify(z3.And(pres, cond)) if not isinstance(pres, bool) else (cond if pres else z3.BoolVal(False))
        if z3.is_true(cond):
            return i
        if z3.is_false(cond):
            continue
        r = it.branch_on(st, cond, '%s[%d] is the key of %s' % (m.name, i, label))
        if r is None:
            raise DeadPath()
        if r:
            return i
    return None


class DeadPath(Exception):
    pass


def values_eq(a, b):
    """structural equality (PartialEq) as a z3 Bool / python bool"""
    a, b = deref(a), deref(b)
    if isinstance(a, Agg) and isinstance(b, Agg):
        if a.ty != b.ty:
            raise Unsupported('comparison of %r and %r' % (a, b))
        if a.idx != b.idx:
            return False
        cs = [values_eq(x.v, y.v) for x, y in zip(a.fields, b.fields)]
        if any(c is False for c in cs):
            return False
        cs = [c for c in cs if c is not True]
        if not cs:
            return True
        return z3.simplify(z3.And(cs))
    if isinstance(a, z3.ExprRef) and isinstance(b, z3.ExprRef):
        r = z3.simplify(a == b)
        if z3.is_true(r):
            return True
        if z3.is_false(r):
            return False
        return r
    if isinstance(a, (bool, int)) and isinstance(b, (bool, int)):
        return a == b
    raise Unsupported('comparison of %r and %r' % (a, b))


def closure_of(it, f):
    """(function, environment value) of a closure operand: a zero-sized fn item or a capturing
    closure aggregate"""
    if isinstance(f, Sym) and f.name == 'fnitem' and f.args[0].startswith('{closure@'):
        return closure_func(it, f.args[0]), Sym('closure_env')
    if isinstance(f, Agg) and f.ty == 'closure':
        return closure_func(it, f.variant), f
    if isinstance(f, Sym) and f.name == 'fnitem':
        # a plain function of the crate passed by name (`.map(Self::helper)`)
        name = re.sub(r'::<[^<>]*>$', '', f.args[0])
        cands = [fn for n, fn in it.prog.funcs.items() if n == name or n.endswith('>::' + name.split('::')[-1]) or n.endswith('::' + name)]
        cands = [fn for fn in cands if '{closure' not in fn.name]
        if len(cands) == 1:
            return cands[0], NO_ENV
    raise Unsupported('closure operand %r' % (f,))


NO_ENV = Sym('no_env')


def call_args(fn, env, extra):
    """argument list of a callable: closures get their environment first, plain functions do not"""
    if env is NO_ENV:
        return list(extra)
    return [closure_env(fn, env)] + list(extra)


def closure_func(it, target):
    cands = [fn for n, fn in it.prog.funcs.items() if '{closure#' in n and fn.args and fn.args[0][1].replace('&mut ', '').replace('&', '') == target]
    if len(cands) != 1:
        raise Unsupported('closure %s: %d candidates' % (target, len(cands)))
    return cands[0]


def closure_env(func, env):
    """closures taking their environment by reference get a reference"""
    return Ref(Cell(env)) if func.args[0][1].startswith('&') else env


def push_cont(it, stack, dest, func, args, ret_bb, fn):
    caller = stack.pop()
    stack.append((caller[0], caller[1], ('cont', dest, fn), ret_bb))
    nfr = {}
    for (loc, _ty), v in zip(func.args, args):
        nfr[loc] = Cell(v)
    stack.append((func, nfr, 'bb0', 0))
    return 'PUSHED'


def _wrap_err(rv):
    return err(rv)


def _wrap_some(rv):
    return some(rv)


def _ident(rv):
    return rv


def _wrap_ok(rv):
    return ok(rv)


def dispatch(it, st, stack, fr, dest, callee, args, ret_bb):
    c = callee
    try:
        return _dispatch(it, st, stack, fr, dest, c, args, ret_bb)
    except DeadPath:
        raise Unsupported('infeasible map lookup (contradictory path condition)')


def _dispatch(it, st, stack, fr, dest, c, args, ret_bb):
    # ------------------------------------------------------------ the lock
    if re.search(r'MutexGuard<.*> as Deref(Mut)?>::deref(_mut)?$', c):
        g = deref(args[0])
        if isinstance(g, Opaque) and g.kind == 'Guard':
            return Ref(g.inner)
        raise Unsupported('deref of %r' % (g,))
    if re.search(r'Mutex::<.*>::lock$', c):
        mx = deref(args[0])
        if isinstance(mx, Opaque) and mx.kind == 'Mutex':
            st.effects = st.effects + [('lock',)]
            return ok(Opaque('Guard', inner=mx.inner))
        raise Unsupported('lock of %r' % (mx,))
    if re.search(r'Result::<.*>::(expect|unwrap)$', c) or re.search(r'Option::<.*>::(expect|unwrap)$', c):
        v = args[0]
        if isinstance(v, Agg) and v.variant in ('Ok', 'Some'):
            return v.fields[0].v
        return ('PANIC', 'expect/unwrap on %s' % v.variant)
    if re.search(r'Box::<.*>::new$', c):
        return args[0]

    # ------------------------------------------------------------ HashMap
    m = re.search(r'HashMap::<.*>::(get|get_mut|contains_key|insert|remove|get_key_value)(::<.*>)?$', c)
    if m:
        op = m.group(1)
        mp = deref(args[0])
        if not isinstance(mp, SymMap):
            raise Unsupported('map operation on %r' % (mp,))
        key = args[1]
        i = lookup(it, st, mp, key, op)
        st.effects = st.effects + [('map.' + op, mp.name)]
        if op in ('get', 'get_mut'):
            return some(Ref(mp.entries[i][2])) if i is not None else NONE()
        if op == 'contains_key':
            return i is not None
        if op == 'insert':
            val = args[2]
            if i is not None:
                old = mp.entries[i][2].v
                # a fresh cell: references handed out earlier keep pointing at the old value only in
                # safe Rust's impossible cases
                mp.entries[i][2].v = val
                return some(old)
            kt = deref(key)
            mp.entries.append([True, kt if not isinstance(kt, Agg) else clone(kt), Cell(val)])
            return NONE()
        if op == 'remove':
            if i is None:
                return NONE()
            old = mp.entries[i][2].v
            mp.entries[i][0] = False
            return some(old)
        raise Unsupported('map operation ' + op)
    m = re.search(r'HashMap::<.*>::entry$', c)
    if m:
        mp = deref(args[0])
        if not isinstance(mp, SymMap):
            raise Unsupported('map operation on %r' % (mp,))
        i = lookup(it, st, mp, args[1], 'entry')
        st.effects = st.effects + [('map.entry', mp.name)]
        return Opaque('Entry', map=mp, key=args[1], idx=i)
    m = re.search(r'Entry::<.*>::(or_insert|or_default|or_insert_with)(::<.*>)?$', c)
    if m:
        e = args[0]
        if not (isinstance(e, Opaque) and e.kind == 'Entry'):
            raise Unsupported('entry operation on %r' % (e,))
        if e.idx is not None:
            return Ref(e.map.entries[e.idx][2])
        if m.group(1) != 'or_insert':
            raise Unsupported('entry operation ' + c)
        kt = deref(e.key)
        cell = Cell(args[1])
        e.map.entries.append([True, kt if not isinstance(kt, Agg) else clone(kt), cell])
        return Ref(cell)
    if re.search(r'HashMap::<.*>::', c) or re.search(r'Entry::<.*>::', c):
        raise Unsupported('map operation ' + c)

    # ------------------------------------------------------------ Option / Result combinators
    if c.endswith(' as Try>::branch'):
        v = args[0]
        if isinstance(v, Agg) and v.ty == 'Result':
            if v.variant == 'Ok':
                return Agg('ControlFlow', 'Continue', 0, [v.fields[0].v])
            return Agg('ControlFlow', 'Break', 1, [err(v.fields[0].v)])
        if isinstance(v, Agg) and v.ty == 'Option':
            if v.variant == 'Some':
                return Agg('ControlFlow', 'Continue', 0, [v.fields[0].v])
            return Agg('ControlFlow', 'Break', 1, [NONE()])
        raise Unsupported('Try::branch of %r' % (v,))
    if ' as FromResidual<' in c and c.endswith('::from_residual'):
        v = args[0]
        if isinstance(v, Agg) and v.ty == 'Result' and v.variant == 'Err':
            return err(v.fields[0].v)
        if isinstance(v, Agg) and v.ty == 'Option' and v.variant == 'None':
            return NONE()
        raise Unsupported('from_residual of %r' % (v,))
    m = re.match(r'^Option::<.*?>::(ok_or_else|ok_or|cloned|copied|as_ref|as_mut|map|is_some|is_none|unwrap_or|and_then|take|replace|insert|filter)(::<.*>)?$', c)
    if m:
        op = m.group(1)
        o = deref(args[0]) if op in ('as_ref', 'as_mut', 'is_some', 'is_none', 'take', 'replace', 'insert') else args[0]
        if not (isinstance(o, Agg) and o.ty == 'Option'):
            raise Unsupported('%s of %r' % (op, o))
        is_some = o.variant == 'Some'
        if op == 'is_some':
            return is_some
        if op == 'is_none':
            return not is_some
        if op == 'ok_or':
            return ok(o.fields[0].v) if is_some else err(args[1])
        if op == 'ok_or_else':
            if is_some:
                return ok(o.fields[0].v)
            fn, env = closure_of(it, args[1])
            return push_cont(it, stack, dest, fn, call_args(fn, env, []), ret_bb, _wrap_err)
        if op in ('cloned', 'copied'):
            return some(clone(deref(o.fields[0].v))) if is_some else NONE()
        if op in ('as_ref', 'as_mut'):
            return some(Ref(o.fields[0])) if is_some else NONE()
        if op == 'unwrap_or':
            return o.fields[0].v if is_some else args[1]
        if op == 'take':
            cellv = args[0].cell
            cellv.v = NONE()
            return o
        if op in ('replace', 'insert'):
            cellv = args[0].cell
            new = some(args[1])
            cellv.v = new
            return o if op == 'replace' else Ref(new.fields[0])
        if op == 'filter':
            if not is_some:
                return NONE()
            fn, env = closure_of(it, args[1])
            keep = o

            def _keep(rv, keep=None):
                return rv
            # the predicate's answer decides; a symbolic answer forks in the caller via `filter_keep`
            caller = stack.pop()
            stack.append((caller[0], caller[1], ('filter_keep', dest, keep), ret_bb))
            nfr = {}
            for (loc, _ty), v in zip(fn.args, call_args(fn, env, [Ref(o.fields[0])])):
                nfr[loc] = Cell(v)
            stack.append((fn, nfr, 'bb0', 0))
            return 'PUSHED'
        if op in ('map', 'and_then'):
            if not is_some:
                return NONE()
            fn, env = closure_of(it, args[1])
            return push_cont(it, stack, dest, fn, call_args(fn, env, [o.fields[0].v]), ret_bb, _wrap_some if op == 'map' else _ident)
    m = re.match(r'^Result::<.*?>::(map_err|is_ok|is_err|ok)(::<.*>)?$', c)
    if m:
        op = m.group(1)
        v = args[0] if op != 'is_ok' and op != 'is_err' else deref(args[0])
        if op == 'is_ok':
            return v.variant == 'Ok'
        if op == 'is_err':
            return v.variant == 'Err'
        if op == 'ok':
            return some(v.fields[0].v) if v.variant == 'Ok' else NONE()
        if v.variant == 'Ok':
            return v
        fn, env = closure_of(it, args[1])
        return push_cont(it, stack, dest, fn, call_args(fn, env, [v.fields[0].v]), ret_bb, _wrap_err)
    m = re.search(r' as PartialEq(<.*>)?>::(eq|ne)$', c)
    if m:
        r = values_eq(args[0], args[1])
        if m.group(2) == 'ne':
            r = (not r) if isinstance(r, bool) else z3.Not(r)
        return r
    if c.endswith(' as Clone>::clone'):
        return clone(deref(args[0]))
    if re.search(r'Uuid>?::nil$', c):
        return z3.BitVecVal(0, 128)
    if re.search(r'Uuid>?::is_nil$', c):
        return deref(args[0]) == z3.BitVecVal(0, 128)
    if c.endswith(' as From<') or ' as From<' in c and c.endswith('::from') or c.endswith('as Into<') or ' as Into<' in c and c.endswith('::into'):
        return args[0]
    if re.search(r'mem::(replace|take|swap)', c):
        raise Unsupported('call to ' + c)

    # ------------------------------------------------------------ error construction (messages are not modelled)
    if re.search(r'fmt::rt::Argument::<.*>::new_(display|debug)', c):
        return Sym('fmtarg')
    if re.search(r'Arguments::<.*>::(new|from_str|new_const|new_v1)', c):
        return Sym('fmtargs')
    if c in ('format', 'alloc::fmt::format', 'std::fmt::format') or c.endswith('fmt::format'):
        return Sym('message')
    if c.startswith('must_use::<') or c.endswith('::must_use') or re.search(r'must_use(::<.*>)?$', c):
        return args[0]
    if re.search(r'anyhow::(__private::format_err|error::<impl anyhow::Error>::msg(::<.*>)?|Error::msg(::<.*>)?)$', c) or c.endswith('anyhow::__private::format_err'):
        st.fresh += 1
        return Sym('anyhow#%d' % st.fresh)
    m = re.search(r'(^|::)panic(king)?::|begin_panic|panic_fmt|panic_display', c)
    if m:
        return ('PANIC', c)
    raise Unsupported('call to ' + c)
