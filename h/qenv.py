"""Environment model of engine Q: the SQLite glue (`sqlite/src/lib.rs`) executed over its MIR.

rusqlite and SQLite are the environment. A connection holds the database: tables as lists of rows
`[present, cells]`, a cell being NULL, an integer (64-bit term), a text holding an id (the 128-bit
term it is the canonical text of), or a blob (payload token). Every SQL string the glue passes to
`execute`/`query_row` is parsed by the same parser engine S uses (s/gen_sql.py) and interpreted
here over the symbolic rows; schema constraints (PRIMARY KEY, NOT NULL, DEFAULT, UNIQUE indexes)
come from the CREATE statements of the current source. Row matching, key conflicts and NULL tests
are solver-pruned forks. `StoredUuid` <-> text is taken as the canonical codec (that it is, for all
2^128 ids, is what `s_codec_enc`/`s_codec_dec` decide); chrono's seconds <-> DateTime conversions
are the identity on the opaque timestamp token. Transactions (BEGIN/COMMIT, locking) are not
modelled here: that is engine S's `s_exclusive`. An unknown callee or SQL form raises Unsupported."""
import os
import re
import sys

import z3

HERE = os.path.dirname(os.path.abspath(__file__))
sys.path.insert(0, os.path.join(HERE, '..', 's'))
import gen_sql  # noqa: E402

from mirsym import NONE, UNIT, Agg, Cell, Opaque, Ref, Str, Sym, Unsupported, err, ok, some  # noqa: E402
import ienv  # noqa: E402
from ienv import deref, push_cont, closure_of, closure_env, call_args  # noqa: E402

NULL = ('null',)
DB_OF = [None]   # the database of the call being interpreted (sub-selects)


class Table:
    def __init__(self, name, cols):
        self.name = name
        self.cols = cols          # [(name, type, pk, notnull, default, uniq)]
        self.rows = []            # [present, [cells]]
        self.uniq_sets = []       # lists of column indexes (unique indexes)

    def ci(self, c):
        for i, cc in enumerate(self.cols):
            if cc[0].lower() == c.lower():
                return i
        raise Unsupported('no such column %s.%s' % (self.name, c))


class Database:
    def __init__(self, tables):
        self.tables = tables
        self.saved = None     # rows as they were when the open transaction began (None: autocommit)

    def begin(self):
        import copy
        self.saved = {n: copy.deepcopy(t.rows) for n, t in self.tables.items()}

    def commit(self):
        self.saved = None

    def close(self):
        """the connection is closed: an open transaction is rolled back"""
        if self.saved is not None:
            for n, rows in self.saved.items():
                self.tables[n].rows = rows
            self.saved = None


def schema_from_source(src_text):
    """tables (with constraints) and unique indexes from the CREATE statements of the source"""
    tables = {}
    for lit in gen_sql.string_literals(src_text):
        if not gen_sql.SQL_START.match(lit):
            continue
        try:
            st = gen_sql.parse(lit)
        except gen_sql.Unparsed as ex:
            if lit.strip().upper().startswith('CREATE'):
                raise Unsupported('schema statement not modelled: %s (%s)' % (' '.join(lit.split())[:80], ex))
            continue
        if st[0] == 'create_table' and st[1] not in tables:
            tables[st[1]] = Table(st[1], st[2])
    for lit in gen_sql.string_literals(src_text):
        if not gen_sql.SQL_START.match(lit):
            continue
        try:
            st = gen_sql.parse(lit)
        except gen_sql.Unparsed:
            continue
        if st[0] == 'create_index' and st[3] and st[1] in tables:
            t = tables[st[1]]
            t.uniq_sets.append([t.ci(c) for c in st[2]])
    for t in tables.values():
        for i, c in enumerate(t.cols):
            if c[2] or c[5]:
                t.uniq_sets.append([i])
    return Database(tables)


# ---------------------------------------------------------------------------------------------
# values

def to_sql(v):
    """a bound parameter (what `&dyn ToSql` points at) as a cell"""
    v = deref(v)
    if isinstance(v, Agg) and v.ty == 'StoredUuid':
        return ('text', v.fields[0].v)
    if isinstance(v, Agg) and v.ty == 'Option':
        return NULL if v.variant == 'None' else to_sql(v.fields[0].v)
    if isinstance(v, z3.BitVecRef):
        if v.size() == 16:
            return ('blob', v)
        if v.size() == 128:
            raise Unsupported('a raw Uuid bound as a parameter')
        return ('int', z3.ZeroExt(64 - v.size(), v) if v.size() < 64 else v)
    if isinstance(v, int) and not isinstance(v, bool):
        return ('int', z3.BitVecVal(v, 64))
    raise Unsupported('parameter %r' % (v,))


def cell_eq(a, b):
    """SQL `=`: python bool or z3 Bool (NULL never equals anything)"""
    if a[0] == 'null' or b[0] == 'null' or a[0] != b[0]:
        return False
    r = z3.simplify(a[1] == b[1])
    if z3.is_true(r):
        return True
    if z3.is_false(r):
        return False
    return r


def conj(parts):
    if any(p is False for p in parts):
        return False
    ps = [p for p in parts if p is not True]
    if not ps:
        return True
    return z3.simplify(z3.And(ps))


def col_value(t, row, name, rowidx):
    if name.lower() == 'rowid':
        # rows are kept in insertion order: the position is the rowid
        return ('int', z3.BitVecVal(rowidx if rowidx is not None else 0, 64))
    return row[t.ci(name)]


def where_cond(t, row, where, params, base):
    parts = []
    rowidx = base
    for c in where:
        kind = c[0]
        if kind in ('lt', 'le', 'gt', 'ge') or (kind in ('eq', 'ne') and (c[1].lower() == 'rowid' or c[2][0] == 'sub')):
            lhs = col_value(t, row, c[1], rowidx)
            rhs = c[2]
            cands = []   # (condition under which this is the sub-select's value, value)
            if rhs[0] == 'sub':
                stn, scol, sub = rhs[1]
                stt = DB_OF[0].tables.get(stn)
                if stt is None:
                    raise Unsupported('no such table ' + stn)
                earlier = []
                for j, r in enumerate(stt.rows):
                    if r[0] is False:
                        continue
                    m = conj([where_cond(stt, r[1], sub, params, j)] + ([r[0]] if r[0] is not True else []))
                    if m is False:
                        continue
                    first = conj([m] + [(not e) if isinstance(e, bool) else z3.Not(e) for e in earlier])
                    cands.append((first, col_value(stt, r[1], scol, j)))
                    earlier.append(m)
            elif rhs[0] == 'param':
                cands.append((True, params[rhs[1]]))
            elif rhs[0] == 'int':
                cands.append((True, ('int', z3.BitVecVal(rhs[1], 64))))
            else:
                raise Unsupported('comparison operand %r' % (rhs,))
            alts = []
            for cnd, val in cands:
                if lhs[0] != 'int' or val[0] != 'int':
                    if kind in ('eq', 'ne'):
                        e = cell_eq(lhs, val)
                        if kind == 'ne':
                            e = (not e) if isinstance(e, bool) else z3.Not(e)
                    else:
                        raise Unsupported('ordering comparison of non-integers')
                else:
                    a, b = lhs[1], val[1]
                    e = {'lt': a < b, 'le': a <= b, 'gt': a > b, 'ge': a >= b, 'eq': a == b, 'ne': a != b}[kind]
                    e = z3.simplify(e)
                    e = True if z3.is_true(e) else (False if z3.is_false(e) else e)
                x = conj([cnd, e])
                if x is True:
                    alts = [True]
                    break
                if x is not False:
                    alts.append(x)
            parts.append(True if alts == [True] else (False if not alts else z3.simplify(z3.Or(alts))))
            continue
        if kind in ('eq', 'ne'):
            ci = t.ci(c[1])
            rhs = c[2]
            if rhs[0] == 'param':
                other = params[rhs[1]]
            elif rhs[0] == 'col':
                other = row[t.ci(rhs[1])]
            elif rhs[0] == 'int':
                other = ('int', z3.BitVecVal(rhs[1], 64))
            elif rhs[0] == 'lit':
                # a text literal: an id in canonical text form, or some other text
                mm = re.match(r'^([0-9a-f]{8})-([0-9a-f]{4})-([0-9a-f]{4})-([0-9a-f]{4})-([0-9a-f]{12})$', rhs[1])
                if not mm:
                    raise Unsupported('text literal %r in a WHERE clause' % (rhs[1],))
                other = ('text', z3.BitVecVal(int(''.join(mm.groups()), 16), 128))
            else:
                raise Unsupported('WHERE operand %r' % (rhs,))
            e = cell_eq(row[ci], other)
            if kind == 'ne':
                if row[ci][0] == 'null' or other[0] == 'null':
                    e = False
                else:
                    e = (not e) if isinstance(e, bool) else z3.Not(e)
            parts.append(e)
        elif kind in ('in', 'notin'):
            # col [NOT] IN (SELECT subcol FROM subtable WHERE subconj): uncorrelated sub-select,
            # evaluated as a disjunction over the rows of the sub-table
            ci = t.ci(c[1])
            stn, scol, sub = c[2]
            stt = DB_OF[0].tables.get(stn)
            if stt is None:
                raise Unsupported('no such table ' + stn)
            if row[ci][0] == 'null':
                parts.append(False)
                continue
            alts = []
            for r in stt.rows:
                if r[0] is False:
                    continue
                m = conj([where_cond(stt, r[1], sub, params, None), cell_eq(row[ci], r[1][stt.ci(scol)])] + ([r[0]] if r[0] is not True else []))
                if m is True:
                    alts = [True]
                    break
                if m is not False:
                    alts.append(m)
            anyhit = True if alts == [True] else (False if not alts else z3.simplify(z3.Or(alts)))
            if kind == 'in':
                parts.append(anyhit)
            else:
                parts.append((not anyhit) if isinstance(anyhit, bool) else z3.Not(anyhit))
        elif kind == 'isnull':
            parts.append(row[t.ci(c[1])][0] == 'null')
        elif kind == 'notnull':
            parts.append(row[t.ci(c[1])][0] != 'null')
        else:
            raise Unsupported('WHERE form %s' % kind)
    return conj(parts)


def decide(it, st, cond, label):
    if isinstance(cond, bool):
        return cond
    r = it.branch_on(st, cond, label)
    if r is None:
        raise ienv.DeadPath()
    return r


SQL_CACHE = {}


def parse_sql(sql):
    if sql not in SQL_CACHE:
        try:
            SQL_CACHE[sql] = gen_sql.parse(sql)
        except gen_sql.Unparsed as ex:
            raise Unsupported('SQL not modelled: %s (%s)' % (' '.join(sql.split())[:100], ex))
    return SQL_CACHE[sql]


def rusqlite_err(kind):
    return Agg('rusqlite::Error', kind, 0, [])


def execute(it, st, db, sql, params):
    DB_OF[0] = db
    s = parse_sql(sql)
    k = s[0]
    st.effects = st.effects + [('sql', k)]
    if k == 'begin':
        if db.saved is not None:
            return err(rusqlite_err('SqliteFailure'))   # "cannot start a transaction within a transaction"
        db.begin()
        return ok(z3.BitVecVal(0, 64))
    if k == 'commit':
        if db.saved is None:
            return err(rusqlite_err('SqliteFailure'))   # "cannot commit - no transaction is active"
        db.commit()
        return ok(z3.BitVecVal(0, 64))
    if k == 'rollback':
        if db.saved is None:
            return err(rusqlite_err('SqliteFailure'))
        db.close()
        return ok(z3.BitVecVal(0, 64))
    if k in ('pragma', 'create_table', 'create_index'):
        return ok(z3.BitVecVal(0, 64))
    if k == 'insert':
        _, tn, cols, conflict = s
        t = db.tables.get(tn)
        if t is None:
            raise Unsupported('no such table ' + tn)
        if len(params) != len(cols):
            return err(rusqlite_err('InvalidParameterCount'))
        row = [NULL] * len(t.cols)
        listed = set()
        for cn, p in zip(cols, params):
            row[t.ci(cn)] = p
            listed.add(t.ci(cn))
        for i, c in enumerate(t.cols):
            if c[4] is not None and (i not in listed or (row[i][0] == 'null' and c[3] and conflict == 'REPLACE')):
                row[i] = ('int', z3.BitVecVal(c[4], 64))
            if c[3] and row[i][0] == 'null':
                return ok(z3.BitVecVal(0, 64)) if conflict == 'IGNORE' else err(rusqlite_err('SqliteFailure'))
        # (all decisions first, mutation afterwards: a fork re-executes the whole call)
        clashing = []
        for r in t.rows:
            if r[0] is False:
                continue
            clash = False
            for us in t.uniq_sets:
                e = conj([cell_eq(r[1][i], row[i]) for i in us])
                if e is False:
                    continue
                e = conj([r[0], e]) if r[0] is not True else e
                if decide(it, st, e, '%s row collides with the inserted key' % tn):
                    clash = True
                    break
            if clash:
                if conflict == 'ABORT':
                    return err(rusqlite_err('SqliteFailure'))
                if conflict == 'IGNORE':
                    return ok(z3.BitVecVal(0, 64))
                clashing.append(r)
        for r in clashing:
            r[0] = False
        t.rows.append([True, row])
        return ok(z3.BitVecVal(1, 64))
    if k == 'update':
        _, tn, sets, where, nparam = s
        t = db.tables.get(tn)
        if t is None:
            raise Unsupported('no such table ' + tn)
        if len(params) != nparam:
            return err(rusqlite_err('InvalidParameterCount'))
        plan = []
        for r in t.rows:
            if r[0] is False:
                continue
            e = where_cond(t, r[1], where, params, t.rows.index(r))
            e = conj([r[0], e]) if r[0] is not True else e
            if e is False or not decide(it, st, e, '%s row matches the UPDATE' % tn):
                continue
            new = list(r[1])
            for c, ex in sets:
                ci = t.ci(c)
                if ex[0] == 'param':
                    new[ci] = params[ex[1]]
                elif ex[0] == 'null':
                    new[ci] = NULL
                elif ex[0] == 'col':
                    new[ci] = r[1][t.ci(ex[1])]
                elif ex[0] == 'colplus':
                    old = r[1][t.ci(ex[1])]
                    new[ci] = NULL if old[0] == 'null' else (('int', old[1] + ex[2]) if old[0] == 'int' else old)
                if t.cols[ci][3] and new[ci][0] == 'null':
                    return err(rusqlite_err('SqliteFailure'))
            for us in t.uniq_sets:
                if not any(i in us for i in [t.ci(c) for c, _ in sets]):
                    continue
                for o in t.rows:
                    if o is r or o[0] is False:
                        continue
                    e2 = conj([cell_eq(o[1][i], new[i]) for i in us])
                    if e2 is False:
                        continue
                    e2 = conj([o[0], e2]) if o[0] is not True else e2
                    if decide(it, st, e2, '%s row collides with the updated key' % tn):
                        return err(rusqlite_err('SqliteFailure'))
            plan.append((r, new))
        for r, new in plan:
            r[1] = new
        n = len(plan)
        return ok(z3.BitVecVal(n, 64))
    if k == 'delete':
        _, tn, where, nparam = s
        t = db.tables.get(tn)
        if t is None:
            raise Unsupported('no such table ' + tn)
        gone = []
        for r in t.rows:
            if r[0] is False:
                continue
            e = where_cond(t, r[1], where, params, t.rows.index(r))
            e = conj([r[0], e]) if r[0] is not True else e
            if e is not False and decide(it, st, e, '%s row matches the DELETE' % tn):
                gone.append(r)
        for r in gone:
            r[0] = False
        n = len(gone)
        return ok(z3.BitVecVal(n, 64))
    raise Unsupported('execute of a %s statement' % k)


def select_row(it, st, db, sql, params):
    DB_OF[0] = db
    s = parse_sql(sql)
    if s[0] == 'exists':
        _, tn, where, nparam = s
        t = db.tables.get(tn)
        if t is None:
            raise Unsupported('no such table ' + tn)
        if len(params) != nparam:
            return 'badparams', None
        hit = False
        for r in t.rows:
            if r[0] is False:
                continue
            e = where_cond(t, r[1], where, params, t.rows.index(r))
            e = conj([r[0], e]) if r[0] is not True else e
            if e is not False and decide(it, st, e, '%s row satisfies the EXISTS' % tn):
                hit = True
                break
        return 'row', Opaque('Row', cells=[('int', z3.BitVecVal(1 if hit else 0, 64))], names=[''])
    if s[0] != 'select':
        raise Unsupported('query_row of a %s statement' % s[0])
    _, tn, cols, where, nparam, _limit = s
    t = db.tables.get(tn)
    if t is None:
        raise Unsupported('no such table ' + tn)
    st.effects = st.effects + [('sql', 'select')]
    if len(params) != nparam:
        return 'badparams', None
    for r in t.rows:
        if r[0] is False:
            continue
        e = where_cond(t, r[1], where, params, t.rows.index(r))
        e = conj([r[0], e]) if r[0] is not True else e
        if e is not False and decide(it, st, e, '%s row matches the SELECT' % tn):
            return 'row', Opaque('Row', cells=[r[1][t.ci(c)] for c in cols], names=[c.lower() for c in cols])
    return 'none', None


def from_cell(c, ty):
    """Row::get::<_, T>: cell -> Result<T, rusqlite::Error>"""
    ty = ty.replace(' ', '')
    opt = ty.startswith('Option<')
    inner = ty[7:-1] if opt else ty
    if c[0] == 'null':
        return ok(NONE()) if opt else err(rusqlite_err('InvalidColumnType'))
    if inner == 'StoredUuid':
        if c[0] != 'text':
            return err(rusqlite_err('InvalidColumnType'))
        v = Agg('StoredUuid', 'StoredUuid', 0, [c[1]])
    elif inner == 'bool':
        if c[0] != 'int':
            return err(rusqlite_err('InvalidColumnType'))
        v = z3.simplify(c[1] != z3.BitVecVal(0, 64))
        v = True if z3.is_true(v) else (False if z3.is_false(v) else v)
    elif inner in ('i64',):
        if c[0] != 'int':
            return err(rusqlite_err('InvalidColumnType'))
        v = c[1]
    elif inner in ('u32', 'i32'):
        if c[0] != 'int':
            return err(rusqlite_err('InvalidColumnType'))
        v = z3.simplify(z3.Extract(31, 0, c[1]))
    elif inner in ('Vec<u8>', 'std::vec::Vec<u8>'):
        if c[0] != 'blob':
            return err(rusqlite_err('InvalidColumnType'))
        v = c[1]
    else:
        raise Unsupported('Row::get of type ' + ty)
    return ok(some(v)) if opt else ok(v)


def param_list(args_val):
    v = deref(args_val)
    if isinstance(v, Agg) and v.ty in ('array', 'tuple'):
        return [to_sql(f.v) for f in v.fields]
    if isinstance(v, list):
        return [to_sql(x) for x in v]
    if v == [] or (isinstance(v, Sym) and (v.name == '[]' or (v.name == 'fnitem' and v.args and v.args[0] == '[]'))):
        return []
    raise Unsupported('parameter list %r' % (v,))


def dispatch(it, st, stack, fr, dest, callee, args, ret_bb):
    try:
        return _dispatch(it, st, stack, fr, dest, callee, args, ret_bb)
    except ienv.DeadPath:
        raise Unsupported('infeasible row match (contradictory path condition)')


def _dispatch(it, st, stack, fr, dest, c, args, ret_bb):
    if c == 'verif_open_time_sql':
        con = deref(args[0])
        return execute(it, st, con.db, deref(args[1]).s, [])
    if re.search(r'Connection::execute(::<.*>)?$', c):
        con = deref(args[0])
        sql = deref(args[1])
        if not (isinstance(con, Opaque) and con.kind == 'Conn' and isinstance(sql, Str)):
            raise Unsupported('execute on %r with %r' % (con, sql))
        return execute(it, st, con.db, sql.s, param_list(args[2]) if len(args) > 2 else [])
    if re.search(r'Connection::query_row(::<.*>)?$', c):
        con = deref(args[0])
        sql = deref(args[1])
        if not (isinstance(con, Opaque) and con.kind == 'Conn' and isinstance(sql, Str)):
            raise Unsupported('query_row on %r with %r' % (con, sql))
        kind, row = select_row(it, st, con.db, sql.s, param_list(args[2]))
        if kind == 'badparams':
            return err(rusqlite_err('InvalidParameterCount'))
        if kind == 'none':
            return err(rusqlite_err('QueryReturnedNoRows'))
        fn, env = closure_of(it, args[3])
        return push_cont(it, stack, dest, fn, call_args(fn, env, [Ref(Cell(row))]), ret_bb, ienv._ident)
    m = re.search(r'Row::<.*?>::get::<(&?\w+), (.+)>$', c)
    if m:
        row = deref(args[0])
        idx = args[1]
        if not isinstance(row, Opaque) or row.kind != 'Row':
            raise Unsupported('Row::get on %r' % (row,))
        if isinstance(idx, Str):
            if idx.s.lower() not in row.names:
                return err(rusqlite_err('InvalidColumnName'))
            i = row.names.index(idx.s.lower())
        elif isinstance(idx, int):
            i = idx
        else:
            raise Unsupported('Row::get index %r' % (idx,))
        if i >= len(row.cells):
            return err(rusqlite_err('InvalidColumnIndex'))
        return from_cell(row.cells[i], m.group(2))
    if re.search(r'as OptionalExtension<.*>>::optional$', c):
        v = args[0]
        if v.variant == 'Ok':
            return ok(some(v.fields[0].v))
        e = v.fields[0].v
        if isinstance(e, Agg) and e.variant == 'QueryReturnedNoRows':
            return ok(NONE())
        return v
    if re.search(r'as anyhow::Context<.*>>::(context|with_context)(::<.*>)?$', c):
        v = args[0]
        if isinstance(v, Agg) and v.ty == 'Result':
            return v if v.variant == 'Ok' else err(Sym('anyhow', v.fields[0].v))
        if isinstance(v, Agg) and v.ty == 'Option':
            return ok(v.fields[0].v) if v.variant == 'Some' else err(Sym('anyhow', 'none'))
        raise Unsupported('context of %r' % (v,))
    # chrono: seconds <-> DateTime are the identity on the timestamp token
    if re.search(r'DateTime::<.*>::timestamp$', c):
        t = deref(args[0])
        if isinstance(t, z3.BitVecRef):
            return z3.ZeroExt(64 - t.size(), t) if t.size() < 64 else t
        raise Unsupported('timestamp of %r' % (t,))
    if re.search(r'as TimeZone>::timestamp_opt$', c):
        secs = args[1]
        if isinstance(secs, z3.BitVecRef):
            return Agg('LocalResult', 'Single', 0, [z3.simplify(z3.Extract(31, 0, secs))])
        raise Unsupported('timestamp_opt of %r' % (secs,))
    if re.search(r'LocalResult::<.*>::unwrap$', c):
        return args[0].fields[0].v
    if re.search(r'DateTime::<.*>::from_timestamp$', c):
        secs = args[0]
        if isinstance(secs, z3.BitVecRef):
            return some(z3.simplify(z3.Extract(31, 0, secs)))
    if re.search(r'Option::<Result<.*>>::transpose$', c):
        o = args[0]
        if o.variant == 'None':
            return ok(NONE())
        r = o.fields[0].v
        return ok(some(r.fields[0].v)) if r.variant == 'Ok' else err(r.fields[0].v)
    if re.search(r'(^|::)StoredUuid$', c):
        return Agg('StoredUuid', 'StoredUuid', 0, [args[0]])
    if re.search(r'anyhow::__private::(format_err|must_use)|anyhow::Error::msg|anyhow::error::<impl anyhow::Error>::msg', c) or c.endswith('::ext::StdError>::ext_context'):
        return ienv._dispatch(it, st, stack, fr, dest, c, args, ret_bb)
    # helper functions of the glue itself (get_version_impl ...): their own MIR
    name = re.sub(r'::<[^<>]*>$', '', c)
    cands = [f for n, f in it.prog.funcs.items() if n == name or n.endswith('>::' + name.split('::')[-1])] if '::' in name else []
    if len(cands) == 1 and 'closure' not in cands[0].name:
        from mirsym import push_call
        return push_call(it, stack, fr, dest, cands[0], args, ret_bb)
    # everything generic (Option/Result combinators, Try, Clone, comparisons, error construction)
    return ienv._dispatch(it, st, stack, fr, dest, c, args, ret_bb)
