"""Engine I, history mode: bounded histories of public StorageTxn calls from the EMPTY store.

Unlike the step mode of icheck.py this makes no assumption about how `Inner` represents the state
(no representation invariant): the four maps start empty, the methods' MIR is executed call after
call on the same symbolic heap, and every call's result is compared with a SYMBOLIC reference
implementation of the storage contract that is evolved alongside (rows with z3 presence flags).
All ids, payload tokens and counters of the history are symbolic, so the solver decides every
aliasing pattern (two clients sharing a parent id, a snapshot id that is another client's version,
a query for a foreign id ...). Histories respect the documented preconditions (assumed on the
path): `new_client` only for an absent client, `add_version` only with a fresh id and a parent that
has no child yet.

A violated obligation yields model values for the whole history; it is replayed as that very
history on the real backend against the concrete contract (icheck.Contract)."""
import os
import re
import sys
import time

import z3

HERE = os.path.dirname(os.path.abspath(__file__))
sys.path.insert(0, HERE)
from mirsym import Agg, Cell, Interp, Opaque, Program, Ref, State, Unsupported  # noqa: E402
import ienv  # noqa: E402
from ienv import SymMap  # noqa: E402
import icheck as ic  # noqa: E402
from icheck import SEGW, TSW, U128  # noqa: E402

T, F = z3.BoolVal(True), z3.BoolVal(False)


class Spec:
    """the storage contract over rows with symbolic presence"""

    def __init__(self):
        self.clients = []    # (pres, cid, [latest, has, svid, sts, ssince])
        self.snapdata = []   # (pres, cid, data)
        self.versions = []   # (pres, cid, vid, parent, seg)

    def client(self, cid):
        found = z3.Or([z3.And(p, c == cid) for p, c, _ in self.clients] + [F])
        vals = list(ic.ZERO['clients'])
        for p, c, v in reversed(self.clients):
            hit = z3.And(p, c == cid)
            vals = [z3.If(hit, a, b) for a, b in zip(v, vals)]
        return found, vals

    def new_client(self, cid, latest):
        found, _ = self.client(cid)
        pre = z3.Not(found)
        self.clients.append((T, cid, [latest, F, ic.ZERO['clients'][2], ic.ZERO['clients'][3], ic.ZERO['clients'][4]]))
        return pre, T

    def add_version(self, cid, v, p, seg):
        found, _ = self.client(cid)
        # version ids are globally fresh (the server draws them from its RNG; SQLite keys the table by them)
        dup_id = z3.Or([z3.And(pp, vv == v) for pp, c, vv, _, _ in self.versions] + [F])
        dup_par = z3.Or([z3.And(pp, c == cid, par == p) for pp, c, _, par, _ in self.versions] + [F])
        # preconditions of the contract: the client exists, the id is fresh, the parent has no child
        pre = z3.And(found, z3.Not(z3.Or(dup_id, dup_par)))
        ok = T
        self.versions.append((ok, cid, v, p, seg))
        self.clients = [(pp, c, [z3.If(z3.And(pp, c == cid), v, vals[0]), vals[1], vals[2], vals[3],
                                 z3.If(z3.And(pp, c == cid, vals[1]), vals[4] + 1, vals[4])]) for pp, c, vals in self.clients]
        return pre, ok

    def set_snapshot(self, cid, svid, sts, ssince, data):
        found, _ = self.client(cid)
        had = z3.Or([z3.And(p, c == cid) for p, c, _ in self.snapdata] + [F])
        self.clients = [(pp, c, [vals[0]] + [z3.If(z3.And(pp, c == cid), n, o) for n, o in zip([T, svid, sts, ssince], vals[1:])]) for pp, c, vals in self.clients]
        self.snapdata = [(p, c, z3.If(z3.And(p, c == cid), data, d)) for p, c, d in self.snapdata]
        self.snapdata.append((z3.And(found, z3.Not(had)), cid, data))
        return found, T

    def snapshot_bytes(self, cid, v):
        found, vals = self.client(cid)
        match = z3.And(found, vals[1], vals[2] == v)
        d = z3.BitVecVal(0, SEGW)
        for p, c, x in reversed(self.snapdata):
            d = z3.If(z3.And(p, c == cid), x, d)
        return match, d

    def by_parent(self, cid, p):
        hits = [z3.And(pp, c == cid, par == p) for pp, c, _, par, _ in self.versions]
        some = z3.Or(hits + [F])
        vals = list(ic.ZERO['versions'])
        for h, (_, _, vv, par, seg) in reversed(list(zip(hits, self.versions))):
            vals = [z3.If(h, a, b) for a, b in zip([vv, par, seg], vals)]
        return some, vals

    def by_id(self, cid, v):
        hits = [z3.And(pp, c == cid, vv == v) for pp, c, vv, _, _ in self.versions]
        some = z3.Or(hits + [F])
        vals = list(ic.ZERO['versions'])
        for h, (_, _, vv, par, seg) in reversed(list(zip(hits, self.versions))):
            vals = [z3.If(h, a, b) for a, b in zip([vv, par, seg], vals)]
        return some, vals


def histories():
    """the bounded histories: lists of (method, client term, [arg terms])"""
    A, Bc = U128('hA'), U128('hB')
    v = lambda n: U128('h_' + n)  # noqa: E731
    seg = lambda n: z3.BitVec('h_' + n, SEGW)  # noqa: E731
    ts = lambda n: z3.BitVec('h_' + n, TSW)  # noqa: E731
    cnt = lambda n: z3.BitVec('h_' + n, 32)  # noqa: E731
    h1 = [('new_client', A, [v('lA')]), ('new_client', Bc, [v('lB')]),
          ('add_version', A, [v('v1'), v('p1'), seg('s1')]), ('add_version', Bc, [v('v2'), v('p2'), seg('s2')]),
          ('add_version', A, [v('v3'), v('p3'), seg('s3')]),
          ('get_version_by_parent', A, [v('q1')]), ('get_version_by_parent', Bc, [v('q1')]),
          ('get_version', A, [v('q2')]), ('get_version', Bc, [v('q2')]), ('get_client', A, []), ('get_client', Bc, [])]
    h2 = [('new_client', A, [v('lA')]), ('new_client', Bc, [v('lB')]),
          ('add_version', A, [v('v1'), v('p1'), seg('s1')]),
          ('set_snapshot', A, [v('sv1'), ts('t1'), cnt('c1'), seg('d1')]), ('set_snapshot', Bc, [v('sv2'), ts('t2'), cnt('c2'), seg('d2')]),
          ('add_version', A, [v('v4'), v('p4'), seg('s4')]),
          ('set_snapshot', A, [v('sv3'), ts('t3'), cnt('c3'), seg('d3')]),
          ('get_snapshot_data', A, [v('g1')]), ('get_snapshot_data', Bc, [v('g2')]), ('get_client', A, []), ('get_client', Bc, [])]
    h3 = [('get_client', A, []), ('get_version_by_parent', A, [v('q1')]), ('get_version', A, [v('q2')]), ('get_snapshot_data', A, [v('g1')]),
          ('new_client', A, [v('lA')]), ('get_client', A, []), ('get_version_by_parent', A, [v('q1')]), ('get_snapshot_data', A, [v('g1')])]
    h4 = [('new_client', A, [v('lA')]), ('add_version', A, [v('v1'), v('p1'), seg('s1')]), ('add_version', A, [v('v3'), v('p3'), seg('s3')]),
          ('set_snapshot', A, [v('sv1'), ts('t1'), cnt('c1'), seg('d1')]), ('set_snapshot', A, [v('sv3'), ts('t3'), cnt('c3'), seg('d3')]),
          ('get_snapshot_data', A, [v('g1')]), ('get_client', A, []),
          # (history survives snapshots: every earlier version is still found)
          ('get_version_by_parent', A, [v('q1')]), ('get_version', A, [v('q2')])]
    # a write whose transaction is dropped without commit must leave no trace (the `!` marks it)
    h5 = [('new_client', A, [v('lA')]), ('add_version', A, [v('v1'), v('p1'), seg('s1')]), ('!add_version', A, [v('v3'), v('p3'), seg('s3')]),
          ('!set_snapshot', A, [v('sv1'), ts('t1'), cnt('c1'), seg('d1')]), ('get_version_by_parent', A, [v('p3')]), ('get_version', A, [v('v3')]), ('get_client', A, [])]
    return {'two clients: versions': h1, 'two clients: snapshots': h2, 'unknown client': h3, 'snapshot after snapshot': h4, 'abandoned transaction': h5}


def open_time_dml(prog):
    """a synthetic function that executes, one call per statement, the INSERT/UPDATE/DELETE
    statements found among the string constants of `SqliteStorage::new` (what the glue does to the
    DATA when it opens a database); None if there are none"""
    import mirlib
    import qenv
    cands = [f for n, f in prog.funcs.items() if n.endswith('::new') and 'SqliteStorage' in f.ret]
    if len(cands) != 1:
        return None
    stmts = []
    for m in re.finditer(r'const "((?:[^"\\]|\\.)*)"', cands[0].text):
        sql = bytes(m.group(1), 'utf-8').decode('unicode_escape')
        if not qenv.gen_sql.SQL_START.match(sql):
            continue
        try:
            kind = qenv.gen_sql.parse(sql)[0]
        except qenv.gen_sql.Unparsed as ex:
            if re.match(r'^\s*(INSERT|UPDATE|DELETE)', sql, re.I):
                raise Unsupported('open-time statement not modelled: %s (%s)' % (' '.join(sql.split())[:80], ex))
            continue
        if kind in ('insert', 'update', 'delete') and sql not in stmts:
            stmts.append(sql)
    if not stmts:
        return None
    f = mirlib.Func('verif::reopen', 'fn verif::reopen(_1: Conn)', '()')
    f.args = [('_1', 'Conn')]
    for i, sql in enumerate(stmts):
        lit = '"' + sql.replace('\\', '\\\\').replace('"', '\\"').replace('\n', '\\n') + '"'
        f.blocks['bb%d' % i] = ([], '_2 = verif_open_time_sql(copy _1, const %s) -> [return: bb%d, unwind continue];' % (lit, i + 1))
    f.blocks['bb%d' % len(stmts)] = ([], 'return;')
    return f


def call_args(L, method, args):
    if method == 'set_snapshot':
        snap = Agg('Snapshot', 'Snapshot', 0, L.mk('snapshot', version_id=args[0], timestamp=args[1], versions_since=args[2]))
        return [snap, args[3]]
    return list(args)


def sqlite_method(prog, name):
    c = [f for n, f in prog.funcs.items() if n.endswith('::' + name) and f.args and re.match(r'^&mut Txn\b', f.args[0][1])]
    if len(c) != 1:
        raise Unsupported('sqlite method %s: %d candidates in the MIR dump' % (name, len(c)))
    return c[0]


def run_history(task):
    mir_path, repo, name = task[:3]
    backend = task[3] if len(task) > 3 else 'imem'
    out = {'history': name, 'backend': backend, 'obl': {}, 'paths': 0, 'queries': 0, 'solver_s': 0.0, 'steps': 0, 'violations': [], 'error': None, 'calls': 0}
    try:
        if mir_path not in ic._PROG:
            ic._PROG[mir_path] = Program(open(mir_path).read(), {})
        prog = ic._PROG[mir_path]
        L = ic.Layout(repo, strict=False)
        hist = histories()[name]
        TAG = 'imem' if backend == 'imem' else 'sqlite'
        st0 = State()
        if backend == 'imem':
            inner = Agg('Inner', 'Inner', 0, [SymMap(n) for n in L.inner])
            st0.root = Cell(inner)
            disp = ienv.dispatch
            find = ic.method_func
        else:
            import qenv
            src = open(os.path.join(repo, 'sqlite/src/lib.rs')).read().split('#[cfg(test)]')[0]
            txn_fields = [f for f, _ in ic.struct_fields(src, 'Txn')]
            if sorted(txn_fields) != ['client_id', 'con']:
                raise Unsupported('fields of the SQLite Txn changed: %s' % txn_fields)
            st0.root = Cell(Opaque('Conn', db=qenv.schema_from_source(src)))
            disp = qenv.dispatch
            find = sqlite_method
        st0.spec = Spec()
        st0.hres = []
        # counters far from overflow
        st0.cons = [z3.ULT(z3.BitVec('h_c%d' % i, 32), z3.BitVecVal(0x7fffffff, 32)) for i in (1, 2, 3)]
        it = Interp(prog, dispatch=disp)

        def check(st, label, formula):
            r, solver, secs = ic.solve(st.cons + [z3.Not(formula)])
            out['queries'] += 1
            out['solver_s'] += secs
            if r == z3.unknown:
                raise Unsupported('solver unknown on ' + label)
            if r == z3.unsat:
                out['obl'].setdefault(label, 'SUCCESS')
                return
            out['obl'][label] = 'FAILURE'
            if len(out['violations']) < 40:
                m = solver.model()
                out['violations'].append((label, script_of_model(hist, m, len(st.hres), reopen=(backend != 'imem'))))

        reopen_fn = None
        if backend != 'imem':
            reopen_fn = open_time_dml(prog)
            out['open_time_statements'] = len(reopen_fn.blocks) - 1 if reopen_fn else 0

        def explore(st, k, reopened=False):
            if k == len(hist):
                out['paths'] += 1
                return
            method, cid, args = hist[k]
            abandoned = method.startswith('!')
            method = method.lstrip('!')
            if abandoned and backend == 'imem':
                # (the in-memory backend documents that it panics instead of rolling back)
                explore(st, k + 1)
                return
            if reopen_fn is not None and not reopened and method.startswith('get_'):
                # "the server was restarted here": whatever data-changing statements the glue issues
                # when it opens the database run before the read (none on the pinned tree)
                for (s2, _rv) in it.run_function(reopen_fn, [st.root.v], st):
                    explore(s2, k, True)
                return
            sp = st.spec
            if abandoned:
                import copy as _copy
                keep = _copy.deepcopy(sp)
            # the reference's verdict for this call, on the state BEFORE it
            if method == 'new_client':
                pre, ok = sp.new_client(cid, args[0])
            elif method == 'add_version':
                pre, ok = sp.add_version(cid, *args)
            elif method == 'set_snapshot':
                pre, ok = sp.set_snapshot(cid, *args)
            else:
                pre, ok = T, T
            if method == 'get_client':
                some, vals = sp.client(cid)
            elif method == 'get_version_by_parent':
                some, vals = sp.by_parent(cid, args[0])
            elif method == 'get_version':
                some, vals = sp.by_id(cid, args[0])
            elif method == 'get_snapshot_data':
                some, d = sp.snapshot_bytes(cid, args[0])
                vals = [d]
            else:
                some, vals = None, []
            st.cons = st.cons + [pre]
            if not it.feasible(st.cons):
                return
            if abandoned:
                st.spec = keep   # the contract: nothing of an uncommitted transaction remains
            f = find(prog, method)
            if backend != 'imem':
                # what SqliteStorage::txn does first: BEGIN (s_exclusive decides mode and connection)
                st.root.v.db.close()
                st.root.v.db.begin()
            if backend == 'imem':
                guard = Opaque('Guard', inner=st.root)
                fields = {'client_id': cid, 'guard': guard, 'written': False, 'committed': False}
                txn = Agg('InnerTxn', 'InnerTxn', 0, [fields[n] for n in L.txn])
            else:
                fields = {'client_id': cid, 'con': st.root.v}
                txn = Agg('Txn', 'Txn', 0, [fields[n] for n in txn_fields])
            res = it.run_function(f, [Ref(Cell(txn))] + call_args(L, method, args), st)
            out['calls'] += 1
            for (s, rv) in res:
                r = ic.flat_result(L, method, rv)
                tag = '%s (call %d of history "%s")' % (method, k + 1, name)
                if r['kind'] == 'panic':
                    check(s, 'c13.%s.h' % TAG + ' %s: never panics on a history that respects the preconditions' % method, F)
                    continue
                if method in ('new_client', 'add_version', 'set_snapshot'):
                    check(s, 'c13.%s.h' % TAG + ' %s: succeeds exactly when the contract says so (client known, preconditions met)' % method, z3.BoolVal(r['kind'] == 'ok') == ok)
                elif method == 'get_snapshot_data':
                    got_bytes = r['kind'] == 'ok' and r.get('some') is True
                    check(s, 'c11.%s.h' % TAG + ' get_snapshot_data: bytes exactly when the client has a snapshot for that version', z3.BoolVal(got_bytes) == some)
                    if got_bytes:
                        check(s, 'c11.%s.h' % TAG + ' get_snapshot_data: the bytes of THIS client\'s latest snapshot upload', z3.Implies(some, r['vals'][0] == vals[0]))
                else:
                    check(s, 'c13.%s.h' % TAG + ' %s: answers Ok' % method, z3.BoolVal(r['kind'] == 'ok'))
                    if r['kind'] == 'ok':
                        check(s, 'c09.%s.h' % TAG + ' %s: Some exactly when THIS client has the record' % method, z3.BoolVal(bool(r.get('some'))) == some)
                        if r.get('some'):
                            check(s, 'c07.%s.h' % TAG + ' %s: the record as the contract holds it (ids, payload, latest, counter)' % method,
                                  z3.Implies(some, z3.And([a == b for a, b in zip(r['vals'], vals)])))
                if not it.feasible(s.cons):
                    continue
                s.hres = s.hres + [r['kind']]
                if backend != 'imem':
                    # the transaction ends: commit() of the glue, or the Txn is dropped (its Drop
                    # impl, if the glue has one, runs; then the connection closes = rollback)
                    end_fn = None
                    if method in ('new_client', 'add_version', 'set_snapshot') and not abandoned and r['kind'] == 'ok':
                        end_fn = find(prog, 'commit')
                    else:
                        dc = [fn for n, fn in prog.funcs.items() if n.endswith('::drop') and fn.args and re.match(r'^&mut Txn\b', fn.args[0][1])]
                        end_fn = dc[0] if len(dc) == 1 else None
                    if end_fn is not None:
                        fields2 = {'client_id': cid, 'con': s.root.v}
                        txn2 = Agg('Txn', 'Txn', 0, [fields2[n] for n in txn_fields])
                        for (s3, rv3) in it.run_function(end_fn, [Ref(Cell(txn2))], s):
                            if end_fn.name.endswith('::commit'):
                                r3 = ic.flat_result(L, 'commit', rv3)
                                check(s3, 'c05.%s.h' % TAG + ' commit: succeeds after a successful write', z3.BoolVal(r3['kind'] == 'ok'))
                            s3.root.v.db.close()
                            explore(s3, k + 1)
                        continue
                    s.root.v.db.close()
                explore(s, k + 1)
                _ = tag
        explore(st0, 0)
        out['steps'] = it.steps
    except Unsupported as ex:
        out['error'] = 'unsupported: %s' % ex
    except Exception as ex:  # noqa: BLE001
        import traceback
        out['error'] = 'internal: %r %s' % (ex, traceback.format_exc()[-800:])
    return out


def script_of_model(hist, m, upto, reopen=False):
    """the history with the model's values, as a vreplay imem script (one transaction per call),
    followed by reads of everything"""
    def val(t):
        n = m.eval(t, model_completion=True).as_long()
        return '%032x' % n if t.size() == 128 else n
    steps = []
    ids = set()
    clients = []
    for method, cid, args in hist:
        abandoned = method.startswith('!')
        method = method.lstrip('!')
        c = val(cid)
        if c not in clients:
            clients.append(c)
        a = [val(x) for x in args]
        for x, t in zip(a, args):
            if t.size() == 128:
                ids.add(x)
        step = {'client': c, 'calls': [[method] + a] + ([['commit']] if method in ('new_client', 'add_version', 'set_snapshot') and not abandoned else [])}
        if abandoned:
            if not reopen:
                continue   # (not part of the in-memory histories)
            step['abandoned'] = True
        if reopen and method.startswith('get_'):
            step['reopen'] = True
        steps.append(step)
    for c in clients:
        calls = [['get_client']] + [['get_version', v] for v in sorted(ids)] + [['get_version_by_parent', v] for v in sorted(ids)] + [['get_snapshot_data', v] for v in sorted(ids)]
        steps.append({'client': c, 'calls': calls})
    return {'steps': steps, 'build_steps': 0}


def _worker_init():
    """a pool worker must not inherit the runner's clean-up: its SIGTERM handler kills the solver
    processes the runner has started (the handler and the list of live children are copied by
    fork, and closing the pool sends SIGTERM to the workers)"""
    import signal
    signal.signal(signal.SIGTERM, signal.SIG_DFL)
    signal.signal(signal.SIGINT, signal.SIG_DFL)
    c = sys.modules.get('vlib.common')
    if c is not None:
        c._LIVE.clear()


def run_all(mir_path, repo, jobs=4, backend='imem'):
    import multiprocessing as mp
    t0 = time.time()
    tasks = [(mir_path, repo, n, backend) for n in histories()]
    with mp.get_context('fork').Pool(min(jobs, len(tasks)), initializer=_worker_init) as pool:
        outs = pool.map_async(run_history, tasks, chunksize=1).get(timeout=int(os.environ.get('VERIF_I_TIMEOUT', '600')))
    return outs, time.time() - t0


if __name__ == '__main__':
    outs, wall = run_all(sys.argv[1], sys.argv[2] if len(sys.argv) > 2 else '/repo', backend=sys.argv[3] if len(sys.argv) > 3 else 'imem')
    for o in outs:
        print(o['history'], 'paths', o['paths'], 'calls', o['calls'], 'queries', o['queries'], 'solver %.1fs' % o['solver_s'], 'error', o['error'])
        for k, v in o['obl'].items():
            print('  ', v, k)
        for lab, sc in o['violations'][:2]:
            print('   VIOL', lab, str(sc)[:300])
    print('wall %.1fs' % wall)
