"""Engine H driver: build the initial states of the four handlers, run them, return path sets."""
import os
import re
import sys

sys.path.insert(0, os.path.dirname(os.path.abspath(__file__)))
import mirsym as ms  # noqa: E402
from mirsym import Agg, Cell, Coroutine, Interp, Opaque, Path, Program, Ref, State, Sym  # noqa: E402

HANDLERS = {
    'add_version': ['req', 'state', 'path', 'payload'],
    'add_snapshot': ['req', 'state', 'path', 'payload'],
    'get_child_version': ['req', 'state', 'path'],
    'get_snapshot': ['req', 'state'],
}


def core_enums(repo):
    out = {}
    for fn in ('server.rs', 'error.rs', 'storage.rs'):
        src = open(os.path.join(repo, 'core/src', fn)).read().split('#[cfg(test)]')[0]
        src = re.sub(r'//[^\n]*', '', src)
        for m in re.finditer(r'pub enum (\w+)\s*\{', src):
            i = m.end()
            depth = 1
            j = i
            while depth > 0:
                if src[j] == '{':
                    depth += 1
                elif src[j] == '}':
                    depth -= 1
                j += 1
            body = src[i:j - 1]
            # variants at depth 0
            names = []
            d = 0
            tok = ''
            for ch in body:
                if ch in '({':
                    d += 1
                elif ch in ')}':
                    d -= 1
                if d == 0 and ch == ',':
                    names.append(tok)
                    tok = ''
                elif d == 0 or True:
                    tok += ch
            names.append(tok)
            vs = []
            for t in names:
                t = re.sub(r'#\[[^\]]*\]', '', t).strip()
                mm = re.match(r'^(\w+)', t)
                if mm:
                    vs.append(mm.group(1))
            out[m.group(1)] = {v: i for i, v in enumerate(vs)}
    return out


def mk_state(allowlist):
    server = Opaque('Server')
    al = Agg('Option', 'None', 0, []) if allowlist is None else Agg('Option', 'Some', 1, [Opaque('HashSet')])
    ss = Opaque('ServerState')
    ss.fields = [Cell(server), Cell(al)]
    inner = Opaque('Arc', inner=Cell(ss))
    outer = Opaque('Arc', inner=Cell(inner))
    return Opaque('Data', inner=Cell(outer))


def run_handler(prog, name, allowlist, max_chunks=3):
    f = prog.func_by_suffix('api::%s::<impl' % name) if False else None
    cands = [fn for n, fn in prog.funcs.items() if n.startswith(name + '::<impl') and n.endswith('register::service::{closure#0}')]
    if len(cands) != 1:
        raise ms.Unsupported('handler %s: %d coroutine bodies' % (name, len(cands)))
    f = cands[0]
    ups = []
    for u in HANDLERS[name]:
        if u == 'req':
            ups.append(Opaque('HttpRequest'))
        elif u == 'state':
            ups.append(mk_state(allowlist))
        elif u == 'path':
            ups.append(Opaque('Path'))
        else:
            ups.append(Opaque('Payload'))
    co = Coroutine(ups)
    pin = Agg('Pin', 'Pin', 0, [Ref(Cell(co))])
    it = Interp(prog, max_chunks=max_chunks)
    st = State()
    st.pending = None
    st.labels = ['allow-list configured' if allowlist is not None else 'no allow-list']
    res = it.run_function(f, [pin, Opaque('Context')], st)
    paths = []
    for (s, rv) in res:
        if isinstance(rv, tuple) and rv[0] == 'END':
            paths.append(Path(s, None, rv[1]))
        else:
            paths.append(Path(s, rv))
    return f, paths, it.steps


def run_client_id_header(prog, allowlist):
    f = prog.func_by_suffix('::client_id_header')
    ss = mk_state(allowlist).inner.v.inner.v.inner.v
    it = Interp(prog)
    st = State()
    st.pending = None
    st.labels = ['allow-list configured' if allowlist is not None else 'no allow-list']
    res = it.run_function(f, [Ref(Cell(ss)), Ref(Cell(Opaque('HttpRequest')))], st)
    return f, [Path(s, rv) for (s, rv) in res], it.steps


def run_ctor(prog):
    """WebServer::new with the allow-list argument None / Some(set): what ends up in ServerState"""
    cands = [fn for n, fn in prog.funcs.items() if n.endswith('>::new') and 'WebServer' in fn.ret]
    if len(cands) != 1:
        raise ms.Unsupported('WebServer::new: %d candidates' % len(cands))
    f = cands[0]
    out = []
    for arg in ('None', 'Some'):
        al = Agg('Option', 'None', 0, []) if arg == 'None' else Agg('Option', 'Some', 1, [Opaque('HashSet')])
        it = Interp(prog)
        st = State()
        st.pending = None
        st.labels = []
        for (s, rv) in it.run_function(f, [Opaque('ServerConfig'), al, Opaque('Storage')], st):
            stored = None
            try:
                ss = rv.fields[0].v.inner.v
                stored = ss.fields[1].v.variant
            except Exception:
                raise ms.Unsupported('WebServer::new result shape %r' % (rv,))
            out.append({'arg': arg, 'stored': stored, 'labels': list(s.labels)})
    return out


def describe(p):
    r = p.result
    if p.outcome != 'return':
        return 'PANIC'
    if isinstance(r, Agg) and r.ty == 'Poll':
        if r.variant != 'Ready':
            return 'PENDING'
        r = r.fields[0].v
    if isinstance(r, Agg) and r.ty == 'Result':
        v = r.fields[0].v
        return repr(v)
    return repr(r)


if __name__ == '__main__':
    mir = open(sys.argv[1]).read()
    prog = Program(mir, core_enums(sys.argv[2] if len(sys.argv) > 2 else '/repo'))
    which = sys.argv[3] if len(sys.argv) > 3 else 'client_id_header'
    for al in (None, 1):
        if which == 'client_id_header':
            f, paths, steps = run_client_id_header(prog, al)
        else:
            f, paths, steps = run_handler(prog, which, al)
        print('==', which, 'allowlist' if al else 'no allowlist', len(paths), 'paths', steps, 'steps')
        for p in paths:
            print('  ', ' / '.join(p.labels[1:]), '=>', describe(p), '| effects:', [e[0] for e in p.effects])
