#!/bin/bash
# Development aid (NOT a verdict): run every scenario of engines K and S natively on generated
# inputs (the counterexample-materialisation search) and report any obligation that fails.
# On the unchanged tree nothing may be found; a hit means a broken harness or a real violation
# that the solver run will confirm or refute. usage: smoke.sh [budget]
cd "$(dirname "$0")"
B=${1:-400000}
python3 -c "import sys; sys.path.insert(0,'.'); from vlib import common" # links .repo
grep -oh 'chk!([^"]*"[^"]*"' k/src/scen.rs k/src/scen_race.rs | sed 's/.*"\(.*\)"/\1/' | grep -v '^inconclusive' | sort -u > .build/k_obls.txt
grep -oh 'chk!([^"]*"[^"]*"' s/harness/src/scen.rs | sed 's/.*"\(.*\)"/\1/' | grep -v '^inconclusive' | sort -u > .build/s_obls.txt
( cd replay && CARGO_TARGET_DIR=../.build/replay-target cargo build --offline --release 2>&1 | grep -E "^error" -A5 )
( cd s/harness && CARGO_TARGET_DIR=../../.build/sreplay-target cargo build --offline --bin sreplay 2>&1 | grep -E "^error" -A5 )
mapfile -t KO < .build/k_obls.txt; mapfile -t SO < .build/s_obls.txt
for h in $(grep -o '\$m!(\w*' k/src/harness_list.rs | sed 's/\$m!(//'); do
  r=$(timeout 120 .build/replay-target/release/vreplay ksearch $h 3 $B "${KO[@]}" | python3 -c "import sys,json; j=json.loads(sys.stdin.read() or '{}'); print('FOUND '+' | '.join(j.get('fails',[])) if j.get('found') else 'ok')" 2>/dev/null)
  echo "K $h: ${r:-timeout}"
done
for h in $(grep -o '\$m!(\w*' s/harness/src/harness_list.rs | sed 's/\$m!(//'); do
  r=$(timeout 120 .build/sreplay-target/debug/sreplay $h --search 3 $B "${SO[@]}" | grep -v '^VALS\|^KNOWN' | tr '\n' '|')
  echo "S $h: $r"
done
