#!/usr/bin/env python3
"""Collect `RESULT <change> check=<ID> rc=<n> <secs>s <summary>` lines from evaluation logs
(eval_one.sh) into a table; later logs override earlier ones. usage: matrix.py <log>..."""
import re
import sys

rows = {}
for path in sys.argv[1:]:
    try:
        txt = open(path, errors='replace').read()
    except OSError:
        continue
    for ln in txt.split('\n'):
        m = re.match(r'^RESULT (\S+) check=(\S+) rc=(\d+) (\d+)s (.*)$', ln)
        if not m:
            continue
        ch, pid, rc, secs, rest = m.groups()
        ch = ch.replace('.diff', '')
        eng = ''
        mv = re.search(r'violated: (.*?)\((\w[\w_]*)\)\|', rest)
        what = ''
        if mv:
            what = mv.group(1).strip()[:110]
            eng = mv.group(2)
        elif 'INCONCLUSIVE' in rest:
            what = rest.split('INCONCLUSIVE:')[1][:110].strip()
        elif 'NOTE' in rest:
            what = rest[:110]
        rows[(ch, pid)] = (rc, secs, eng, what, path)
for (ch, pid), (rc, secs, eng, what, path) in sorted(rows.items()):
    verdict = {'0': 'exit 0', '1': 'VIOLATION', '2': 'inconclusive'}.get(rc, rc)
    print('| %s | %s | %s | %ss | %s | %s |' % (ch, pid, verdict, secs, eng, what.replace('|', '/')))
