"""Engine M: MIR -> SMT-LIB for loop-free integer kernels.

Symbolically executes one MIR function body (found by name in the current dump) over bit-vector
terms and returns its path set: [(path condition, outcome)], outcome = enum variant or 'panic'.
Machine integers are bit-vectors of their exact width; `assert(!overflow)` terminators are panic
outcomes (they are present in the dev-profile MIR and absent from the release-profile MIR, so the
two profiles are two dumps, not two interpretations).
"""
import re
import sys
import os
sys.path.insert(0, os.path.dirname(__file__))
from mirlib import split_top


class Unsupported(Exception):
    pass


INT_TY = {'i8': (8, True), 'i16': (16, True), 'i32': (32, True), 'i64': (64, True), 'i128': (128, True),
          'isize': (64, True), 'u8': (8, False), 'u16': (16, False), 'u32': (32, False), 'u64': (64, False),
          'u128': (128, False), 'usize': (64, False)}


def bvlit(v, w):
    return '(_ bv%d %d)' % (v % (1 << w), w)


class BV:
    def __init__(self, e, w, signed):
        self.e, self.w, self.signed = e, w, signed


class Bool:
    def __init__(self, e):
        self.e = e


class Tup:
    def __init__(self, items):
        self.items = items


class Enum:
    def __init__(self, name):
        self.name = name


class Opt:
    def __init__(self, some, val):
        self.some, self.val = some, val  # Bool expr string, BV


def ext(v, w):
    """extend BV v to width w according to its signedness"""
    if v.w == w:
        return v.e
    k = w - v.w
    return '((_ %s %d) %s)' % ('sign_extend' if v.signed else 'zero_extend', k, v.e)


def fits(wide_e, w2, w, signed):
    """wide_e (width w2) representable in w bits?"""
    low = '((_ extract %d 0) %s)' % (w - 1, wide_e)
    back = '((_ %s %d) %s)' % ('sign_extend' if signed else 'zero_extend', w2 - w, low)
    return '(= %s %s)' % (wide_e, back)


def arith_wide(op, a, b):
    w2 = 2 * a.w + 2
    ae = ext(a, w2)
    be = ext(b, w2)
    return '(%s %s %s)' % ({'add': 'bvadd', 'sub': 'bvsub', 'mul': 'bvmul'}[op], ae, be), w2


def type_max(w, signed):
    return bvlit((1 << (w - 1)) - 1 if signed else (1 << w) - 1, w)


def type_min(w, signed):
    return bvlit(1 << (w - 1) if signed else 0, w)


class Kernel:
    """symbolic executor for one function"""

    def __init__(self, func, arg_values, field_resolver):
        self.f = func
        self.field_resolver = field_resolver
        self.paths = []
        self.arg_values = arg_values
        self.ops_seen = set()

    # ---- operands / places
    def const(self, txt):
        txt = txt.strip()
        if txt in ('true', 'false'):
            return Bool(txt)
        m = re.match(r'^(-?\d+)_(\w+)$', txt)
        if m and m.group(2) in INT_TY:
            w, s = INT_TY[m.group(2)]
            return BV(bvlit(int(m.group(1)), w), w, s)
        m = re.match(r'^(\w+)::(MIN|MAX)$', txt)
        if m and m.group(1) in INT_TY:
            w, s = INT_TY[m.group(1)]
            return BV(type_max(w, s) if m.group(2) == 'MAX' else type_min(w, s), w, s)
        raise Unsupported('constant ' + txt)

    def place(self, env, p):
        p = p.strip()
        if re.match(r'^_\d+$', p):
            if p not in env:
                raise Unsupported('read of unassigned local ' + p)
            return env[p]
        m = re.match(r'^\(\(\*(_\d+)\)\.(\d+): (.+)\)$', p)
        if m:
            return self.field_resolver(m.group(1), int(m.group(2)), m.group(3))
        m = re.match(r'^\(\((_\d+) as Some\)\.0: (.+)\)$', p)
        if m:
            v = env[m.group(1)]
            if not isinstance(v, Opt):
                raise Unsupported('downcast of non-option')
            return v.val
        m = re.match(r'^\((_\d+)\.(\d+): (.+)\)$', p)
        if m:
            v = env[m.group(1)]
            if isinstance(v, Tup):
                return v.items[int(m.group(2))]
            raise Unsupported('field of non-tuple ' + p)
        raise Unsupported('place ' + p)

    def operand(self, env, o):
        o = o.strip()
        if o.startswith('copy ') or o.startswith('move '):
            return self.place(env, o[5:])
        if o.startswith('const '):
            return self.const(o[6:])
        raise Unsupported('operand ' + o)

    # ---- rvalues
    def binop(self, op, a, b):
        self.ops_seen.add(op)
        cmpops = {'Eq': '=', 'Ne': 'distinct'}
        if op in cmpops:
            if isinstance(a, Bool):
                return Bool('(%s %s %s)' % (cmpops[op], a.e, b.e))
            return Bool('(%s %s %s)' % (cmpops[op], a.e, b.e))
        if op in ('Ge', 'Gt', 'Le', 'Lt'):
            s = a.signed
            name = {'Ge': 'ge', 'Gt': 'gt', 'Le': 'le', 'Lt': 'lt'}[op]
            return Bool('(bv%s%s %s %s)' % ('s' if s else 'u', name, a.e, b.e))
        if op in ('BitAnd', 'BitOr', 'BitXor'):
            if isinstance(a, Bool):
                return Bool('(%s %s %s)' % ({'BitAnd': 'and', 'BitOr': 'or', 'BitXor': 'xor'}[op], a.e, b.e))
            return BV('(%s %s %s)' % ({'BitAnd': 'bvand', 'BitOr': 'bvor', 'BitXor': 'bvxor'}[op], a.e, b.e), a.w, a.signed)
        if op in ('Add', 'Sub', 'Mul', 'AddUnchecked', 'SubUnchecked', 'MulUnchecked'):
            o = op.replace('Unchecked', '').lower()
            return BV('(bv%s %s %s)' % (o, a.e, b.e), a.w, a.signed)
        if op in ('AddWithOverflow', 'SubWithOverflow', 'MulWithOverflow'):
            o = op[:3].lower()
            wide, w2 = arith_wide(o, a, b)
            res = BV('(bv%s %s %s)' % (o, a.e, b.e), a.w, a.signed)
            ovf = Bool('(not %s)' % fits(wide, w2, a.w, a.signed))
            return Tup([res, ovf])
        if op == 'Div':
            return BV('(bv%sdiv %s %s)' % ('s' if a.signed else 'u', a.e, b.e), a.w, a.signed)
        if op == 'Rem':
            return BV('(bv%srem %s %s)' % ('s' if a.signed else 'u', a.e, b.e), a.w, a.signed)
        if op in ('Shl', 'Shr'):
            be = ext(BV(b.e, b.w, False), a.w) if b.w <= a.w else '((_ extract %d 0) %s)' % (a.w - 1, b.e)
            if op == 'Shl':
                return BV('(bvshl %s %s)' % (a.e, be), a.w, a.signed)
            return BV('(bv%sshr %s %s)' % ('a' if a.signed else 'l', a.e, be), a.w, a.signed)
        raise Unsupported('binary op ' + op)

    def rvalue(self, env, rv):
        rv = rv.strip()
        m = re.match(r'^(copy|move|const) ', rv)
        if m and ' as ' not in rv:
            return self.operand(env, rv)
        m = re.match(r'^(.+) as (\w+) \((\w+)\)$', rv)
        if m:
            v = self.operand(env, m.group(1))
            ty = m.group(2)
            if ty not in INT_TY or not isinstance(v, (BV, Bool)):
                raise Unsupported('cast ' + rv)
            w, s = INT_TY[ty]
            if isinstance(v, Bool):
                return BV('(ite %s %s %s)' % (v.e, bvlit(1, w), bvlit(0, w)), w, s)
            if w <= v.w:
                return BV('((_ extract %d 0) %s)' % (w - 1, v.e), w, s)
            return BV(ext(v, w), w, s)
        m = re.match(r'^Not\((.+)\)$', rv)
        if m:
            v = self.operand(env, m.group(1))
            if isinstance(v, Bool):
                return Bool('(not %s)' % v.e)
            return BV('(bvnot %s)' % v.e, v.w, v.signed)
        m = re.match(r'^Neg\((.+)\)$', rv)
        if m:
            v = self.operand(env, m.group(1))
            return BV('(bvneg %s)' % v.e, v.w, v.signed)
        m = re.match(r'^discriminant\((_\d+)\)$', rv)
        if m:
            v = env[m.group(1)]
            if isinstance(v, Opt):
                return BV('(ite %s %s %s)' % (v.some, bvlit(1, 64), bvlit(0, 64)), 64, True)
            raise Unsupported('discriminant of non-option')
        m = re.match(r'^(\w+)\((.*)\)$', rv)
        if m and m.group(1)[0].isupper() and m.group(1) not in ('Option',):
            args = split_top(m.group(2))
            if len(args) == 2:
                return self.binop(m.group(1), self.operand(env, args[0]), self.operand(env, args[1]))
        m = re.match(r'^(?:[\w:]+::)?SnapshotUrgency::(\w+)$', rv)
        if m:
            return Enum(m.group(1))
        m = re.match(r'^\((.*)\)$', rv)
        if m:
            return Tup([self.operand(env, x) for x in split_top(m.group(1))])
        raise Unsupported('rvalue ' + rv)

    # ---- calls (integer intrinsics by their SMT definition)
    def call(self, env, callee, args):
        a = [self.operand(env, x) for x in args]
        m = re.search(r'(?:core|std)::num::<impl (\w+)>::(\w+)$', callee)
        name = m.group(2) if m else None
        self.ops_seen.add('call:' + (name or callee))
        if name in ('saturating_add', 'saturating_sub', 'saturating_mul'):
            o = name.split('_')[1]
            x, y = a
            wide, w2 = arith_wide(o, x, y)
            mx, mn = ext(BV(type_max(x.w, x.signed), x.w, x.signed), w2), ext(BV(type_min(x.w, x.signed), x.w, x.signed), w2)
            gt = '(bvsgt %s %s)' % (wide, mx)
            lt = '(bvslt %s %s)' % (wide, mn)
            low = '((_ extract %d 0) %s)' % (x.w - 1, wide)
            return BV('(ite %s %s (ite %s %s %s))' % (gt, type_max(x.w, x.signed), lt, type_min(x.w, x.signed), low), x.w, x.signed)
        if name in ('wrapping_add', 'wrapping_sub', 'wrapping_mul'):
            return self.binop(name.split('_')[1].capitalize(), a[0], a[1])
        if name in ('checked_add', 'checked_sub', 'checked_mul'):
            o = name.split('_')[1]
            x, y = a
            wide, w2 = arith_wide(o, x, y)
            return Opt(fits(wide, w2, x.w, x.signed), BV('(bv%s %s %s)' % (o, x.e, y.e), x.w, x.signed))
        if name in ('overflowing_add', 'overflowing_sub', 'overflowing_mul'):
            return self.binop(name.split('_')[1].capitalize() + 'WithOverflow', a[0], a[1])
        if name in ('min', 'max') or re.search(r'cmp::(min|max)::<\w+>$', callee) or re.search(r'as Ord>::(min|max)$', callee):
            which = 'max' if 'max' in callee.split('::')[-1] else 'min'
            x, y = a
            ge = '(bv%sge %s %s)' % ('s' if x.signed else 'u', x.e, y.e)
            return BV('(ite %s %s %s)' % (ge, x.e if which == 'max' else y.e, y.e if which == 'max' else x.e), x.w, x.signed)
        if re.search(r'Option::<\w+>::unwrap_or$', callee):
            o, d = a
            return BV('(ite %s %s %s)' % (o.some, o.val.e, d.e), d.w, d.signed)
        m2 = re.search(r'<(\w+) as (?:std::convert::)?From<(\w+)>>::from$', callee)
        if m2 and m2.group(1) in INT_TY:
            w, s = INT_TY[m2.group(1)]
            return BV(ext(a[0], w), w, s)
        raise Unsupported('call to ' + callee)

    # ---- control flow
    def run(self):
        env = dict(self.arg_values)
        self.walk('bb0', env, [], 0)
        return self.paths

    def walk(self, bb, env, cond, depth):
        if depth > 200:
            raise Unsupported('not loop-free (depth)')
        stmts, term = self.f.blocks[bb]
        env = dict(env)
        for s in stmts:
            if s.startswith(('StorageLive', 'StorageDead', 'nop', 'FakeRead', 'PlaceMention', 'Retag', 'AscribeUserType', 'Coverage', 'ConstEvalCounter')):
                continue
            m = re.match(r'^(_\d+) = (.+);$', s)
            if not m:
                raise Unsupported('statement ' + s)
            env[m.group(1)] = self.rvalue(env, m.group(2))
        t = term.rstrip(';')
        if t == 'return':
            r = env.get('_0')
            if not isinstance(r, Enum):
                raise Unsupported('return value is not an enum constant')
            self.paths.append((cond, r.name))
            return
        if t == 'unreachable':
            return
        m = re.match(r'^goto -> (bb\d+)$', t)
        if m:
            return self.walk(m.group(1), env, cond, depth + 1)
        m = re.match(r'^assert\((!?)(.+?), ".*\) -> \[success: (bb\d+), unwind', t)
        if m:
            c = self.operand(env, m.group(2))
            ok = '(not %s)' % c.e if m.group(1) == '!' else c.e
            self.paths.append((cond + ['(not %s)' % ok], 'panic'))
            return self.walk(m.group(3), env, cond + [ok], depth + 1)
        m = re.match(r'^switchInt\((.+?)\) -> \[(.+)\]$', t)
        if m:
            v = self.operand(env, m.group(1))
            arms = [x.strip() for x in m.group(2).split(',')]
            taken = []
            for arm in arms:
                k, tgt = [x.strip() for x in arm.split(':')]
                if k == 'otherwise':
                    c = ['(not %s)' % x for x in taken]
                    self.walk(tgt, env, cond + c, depth + 1)
                else:
                    if isinstance(v, Bool):
                        e = v.e if int(k) != 0 else '(not %s)' % v.e
                    else:
                        e = '(= %s %s)' % (v.e, bvlit(int(k), v.w))
                    taken.append(e)
                    self.walk(tgt, env, cond + [e], depth + 1)
            return
        m = re.match(r'^(_\d+) = (.+?)\((.*)\) -> \[return: (bb\d+), unwind', t)
        if m:
            env[m.group(1)] = self.call(env, m.group(2), split_top(m.group(3)))
            return self.walk(m.group(4), env, cond, depth + 1)
        raise Unsupported('terminator ' + t)


OUT_CODE = {'None': 0, 'Low': 1, 'High': 2, 'panic': 3}


def paths_to_term(paths):
    """nested ite over the path set -> 2-bit result term"""
    term = bvlit(3, 2)  # unreachable default
    for cond, out in reversed(paths):
        c = '(and true %s)' % ' '.join(cond) if cond else 'true'
        term = '(ite %s %s %s)' % (c, bvlit(OUT_CODE[out], 2), term)
    return term
