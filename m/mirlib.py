"""Minimal parser for rustc's `-Zunpretty=mir` text: splits a dump into functions, locals, basic
blocks, statements and terminators. Shared by engine M (mir2smt.py) and engine H (mirsym.py)."""
import re


class Func:
    def __init__(self, name, sig, ret):
        self.name = name
        self.sig = sig
        self.ret = ret
        self.args = []      # [(local, type)]
        self.locals = {}    # local -> type
        self.blocks = {}    # 'bbN' -> ([stmts], terminator)
        self.debug = {}     # source name -> place text
        self.text = ''


FN_RE = re.compile(r'^fn (.+?)\((.*)\) -> (.+?) \{$')
FN_UNIT_RE = re.compile(r'^fn (.+?)\((.*)\) \{$')


def split_top(s, sep=','):
    """split on sep at nesting depth 0 of (), [], <>, {}"""
    out, depth, cur = [], 0, ''
    i = 0
    instr = False
    while i < len(s):
        ch = s[i]
        if instr:
            # inside a string literal nothing nests and nothing separates
            cur += ch
            if ch == '\\' and i + 1 < len(s):
                cur += s[i + 1]
                i += 2
                continue
            if ch == '"':
                instr = False
            i += 1
            continue
        if ch == '"':
            instr = True
            cur += ch
            i += 1
            continue
        if ch in '([{<':
            depth += 1
        elif ch in ')]}':
            depth -= 1
        elif ch == '>' and not (i > 0 and s[i - 1] in '-='):
            depth -= 1
        if ch == sep and depth == 0:
            out.append(cur.strip())
            cur = ''
        else:
            cur += ch
        i += 1
    if cur.strip():
        out.append(cur.strip())
    return out


def parse_functions(text):
    funcs = []
    lines = text.split('\n')
    i = 0
    while i < len(lines):
        ln = lines[i]
        m = FN_RE.match(ln)
        mu = None if m else FN_UNIT_RE.match(ln)
        if (m or mu) and not ln.startswith(' '):
            name = (m or mu).group(1)
            argstr = (m or mu).group(2)
            ret = m.group(3) if m else '()'
            f = Func(name, ln, ret)
            for a in split_top(argstr):
                if ':' in a:
                    loc, ty = a.split(':', 1)
                    f.args.append((loc.strip(), ty.strip()))
                    f.locals[loc.strip()] = ty.strip()
            j = i + 1
            body = []
            while j < len(lines) and lines[j] != '}':
                body.append(lines[j])
                j += 1
            f.text = '\n'.join([ln] + body + ['}'])
            _parse_body(f, body)
            funcs.append(f)
            i = j
        i += 1
    return funcs


LET_RE = re.compile(r'^\s*let (?:mut )?(_\d+): (.+);$')
DEBUG_RE = re.compile(r'^\s*debug (\S+) => (.+);$')
BB_RE = re.compile(r'^\s*(bb\d+)(?: \(cleanup\))?: \{$')


def _parse_body(f, body):
    k = 0
    while k < len(body):
        ln = body[k]
        m = LET_RE.match(ln)
        if m:
            f.locals[m.group(1)] = m.group(2)
            k += 1
            continue
        m = DEBUG_RE.match(ln)
        if m:
            f.debug[m.group(1)] = m.group(2)
            k += 1
            continue
        m = BB_RE.match(ln)
        if m:
            bb = m.group(1)
            k += 1
            stmts = []
            while k < len(body) and body[k].strip() != '}':
                s = body[k].strip()
                # multi-line statements (rare): join until ';' or terminator pattern
                while not (s.endswith(';') or s.endswith('];') or s.endswith('}')) and k + 1 < len(body):
                    k += 1
                    s += ' ' + body[k].strip()
                if s:
                    stmts.append(s)
                k += 1
            term = stmts[-1] if stmts else ''
            f.blocks[bb] = (stmts[:-1], term)
        k += 1


def find_function(funcs, suffix):
    """functions whose path ends with ::suffix (impl blocks are printed as `<impl at ...>::name`)"""
    return [f for f in funcs if f.name.endswith('::' + suffix) or f.name == suffix]
