//! The protocol specification, executable: what each request must answer and what it must leave
//! behind, written from the property statements (C02, C08, C10, C11, C12) in terms of chain
//! positions -- not a transcription of `core/src/server.rs`.

use crate::model::*;
use chrono::{DateTime, Utc};

/// Is `v` the id of a stored version? Returns position + 1 (0 = not stored).
fn stored_pos<const C: usize>(c: &Cl<C>, v: u128) -> usize {
    let p = c.pos_of(v);
    if p == C {
        0
    } else {
        p + 1
    }
}

/// C02: accepted exactly when the client has no versions yet or `parent` is the current latest.
pub fn add_version_accepts<const C: usize>(c: &Cl<C>, parent: u128) -> bool {
    c.n == 0 || parent == c.latest
}

/// Post-state of an accepted AddVersion that was given id `vid`.
pub fn add_version_post<const C: usize>(c: &Cl<C>, vid: u128, parent: u128, data: Bytes) -> Cl<C> {
    let mut e = *c;
    e.vers[c.n] = VRec { vid, parent, data };
    e.n = c.n + 1;
    e.latest = vid;
    if let Some(s) = e.snap.as_mut() {
        s.since += 1;
    }
    e
}

/// C08: the child of `p` if one exists, else not-found iff AddVersion(p) would be accepted.
pub fn get_child<const C: usize>(c: &Cl<C>, p: u128) -> OpRes {
    let i = c.child_of(p);
    if i != C {
        let v = c.vers[i];
        OpRes::ChildFound { vid: v.vid, parent: v.parent, data: v.data }
    } else if add_version_accepts(c, p) {
        OpRes::ChildNotFound
    } else {
        OpRes::ChildGone
    }
}

#[derive(Clone, Copy, PartialEq, Eq)]
pub enum SnapVerdict {
    Replace,
    Keep,
    /// v is the non-nil id the chain started from: either outcome is allowed (C10)
    Unspecified,
}

/// C10: replaced exactly when v is non-nil, among the five most recent versions, not already the
/// snapshot version, and no newer version within that window already holds the snapshot.
pub fn add_snapshot_verdict<const C: usize>(c: &Cl<C>, v: u128) -> SnapVerdict {
    if v == 0 {
        return SnapVerdict::Keep;
    }
    let p1 = stored_pos(c, v);
    if p1 == 0 {
        if c.n > 0 && v == c.base() {
            return SnapVerdict::Unspecified;
        }
        return SnapVerdict::Keep;
    }
    let p = p1 - 1;
    if c.n - 1 - p >= 5 {
        return SnapVerdict::Keep;
    }
    match c.snap {
        None => SnapVerdict::Replace,
        Some(s) => {
            if s.vid == v {
                return SnapVerdict::Keep;
            }
            let q1 = stored_pos(c, s.vid);
            // an existing snapshot on the chain base or on an older version does not block
            if q1 != 0 && q1 - 1 > p {
                SnapVerdict::Keep
            } else {
                SnapVerdict::Replace
            }
        }
    }
}

pub fn add_snapshot_post<const C: usize>(c: &Cl<C>, v: u128, now: DateTime<Utc>, data: Bytes) -> Cl<C> {
    let mut e = *c;
    e.snap = Some(Snap { vid: v, ts: now, since: 0, data });
    e
}

/// C11: exactly the id and bytes of the most recently accepted snapshot, or nothing.
pub fn get_snapshot<const C: usize>(c: &Cl<C>) -> OpRes {
    match c.snap {
        None => OpRes::SnapshotNone,
        Some(s) => OpRes::SnapshotFound { vid: s.vid, data: s.data },
    }
}

/// C12: urgency from age in whole days and versions since, for targets (days, versions):
/// 2 = high when there is no snapshot or either measure reached 1.5x its target, 1 = low when
/// either reached its target, 0 otherwise. 1.5x is computed exactly in wide integers; an odd
/// target's half may round either way (`ceil` selects which).
pub fn urgency(snap_age_days: Option<(i64, u32)>, cfg_days: i64, cfg_versions: u32, ceil: bool) -> u8 {
    match snap_age_days {
        None => 2,
        Some((days, since)) => {
            let r: i128 = if ceil { 1 } else { 0 };
            let hd = (cfg_days as i128 * 3 + r) / 2;
            let hv = (cfg_versions as i128 * 3 + r) / 2;
            if days as i128 >= hd || since as i128 >= hv {
                2
            } else if days >= cfg_days || since >= cfg_versions {
                1
            } else {
                0
            }
        }
    }
}
