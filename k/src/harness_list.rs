//! The single list of harnesses: (name, unwind bound, scenario). Expanded into `#[kani::proof]`
//! functions by proofs.rs and into the native replay registry by registry.rs.
#[macro_export]
macro_rules! harness_list {
    ($m:ident) => {
        // ---- quick tier (chain <= 7 unless stated)
        $m!(c01_step_n7_k0, 18, scen::c01_step::<8, 0>);
        $m!(c01_step_n7_k1, 18, scen::c01_step::<8, 1>);
        $m!(c01_step_n7_k2, 18, scen::c01_step::<8, 2>);
        $m!(c01_step_n7_k3, 18, scen::c01_step::<8, 3>);
        $m!(c01_walk_n4, 18, scen::c01_walk::<5, 4>);
        $m!(c01_hist_k2, 18, scen::c01_hist::<3, 2>);
        $m!(c02_cas_n7, 18, scen::c02_cas::<8>);
        $m!(c02_cas_n3, 18, scen::c02_cas::<4>);
        $m!(c03_one_txn_n7, 18, scen::c03_one_txn::<8, 4>);
        $m!(c03_pairs_n2_av_av, 18, scen::c03_pairs::<4, 0, 0>);
        $m!(c03_pairs_n2_av_as, 18, scen::c03_pairs::<4, 0, 2>);
        $m!(c03_pairs_n2_as_av, 18, scen::c03_pairs::<4, 2, 0>);
        $m!(c03_pairs_n2_as_as, 18, scen::c03_pairs::<4, 2, 2>);
        $m!(c03_race_replace, 18, scen_race::c03_race_replace);
        $m!(c03_race_err, 18, scen_race::c03_race_err);
        $m!(c04_atomic_ack_n7_k0, 18, scen::c04_atomic_ack::<8, 0>);
        $m!(c04_atomic_ack_n7_k2, 18, scen::c04_atomic_ack::<8, 2>);
        $m!(c04_atomic_ack_n4_rd, 18, scen::c04_atomic_ack::<5, 1>);
        $m!(c04_atomic_ack_n4_k2, 18, scen::c04_atomic_ack::<5, 2>);
        $m!(c05_fault_n3_k0, 18, scen::c05_fault::<4, 0>);
        $m!(c05_fault_n3_k1, 18, scen::c05_fault::<4, 1>);
        $m!(c05_fault_n3_k2, 18, scen::c05_fault::<4, 2>);
        $m!(c05_fault_n3_k3, 18, scen::c05_fault::<4, 3>);
        $m!(c05_begin_n3, 18, scen::c05_begin::<4, 4>);
        $m!(c06_roundtrip_n3, 18, scen::c06_roundtrip::<5>);
        $m!(c07_frame_n7_k0, 18, scen::c07_frame::<8, 0>);
        $m!(c07_frame_n7_k2, 18, scen::c07_frame::<8, 2>);
        $m!(c07_frame_n4_rd, 18, scen::c07_frame::<5, 4>);
        $m!(c08_table_n7, 18, scen::c08_table::<8>);
        $m!(c09_nonint_n3, 18, scen::c09_nonint::<4>);
        $m!(c09_nonint_n4, 18, scen::c09_nonint::<5>);
        $m!(c10_none_n7, 18, scen::c10_none_8);
        $m!(c10_prev_n7, 18, scen::c10_prev_8);
        $m!(c11_none_n7, 18, scen::c11_none_8);
        $m!(c11_prev_n7, 18, scen::c11_prev_8);
        $m!(c11_interleaved_n2, 18, scen::c11_interleaved::<4>);
        $m!(c11_interleaved_n4, 18, scen::c11_interleaved::<6>);
        $m!(c12_wiring_n2, 18, scen::c12_wiring::<3>);
        $m!(c18_frame_n7_k0, 18, scen::c18_frame::<8, 0>);
        $m!(c18_frame_n7_k1, 18, scen::c18_frame::<8, 1>);
        $m!(c18_frame_n7_k2, 18, scen::c18_frame::<8, 2>);
        $m!(c18_frame_n7_k3, 18, scen::c18_frame::<8, 3>);
        // ---- thorough tier (chain <= 8 and wider variants)
        // quick-tier sizes of the harnesses that do not fit a 15-minute check at chain 7
        $m!(c01_step_n5_k2, 18, scen::c01_step::<6, 2>);
        $m!(c01_walk_n3, 18, scen::c01_walk::<4, 4>);
        $m!(c04_atomic_ack_n3_k2, 18, scen::c04_atomic_ack::<4, 2>);
        $m!(c05_fault_n2_k2, 18, scen::c05_fault::<3, 2>);
        $m!(c09_nonint_n2, 18, scen::c09_nonint::<3>);
        $m!(c09_nonint_n3_k0, 18, scen::c09_nonint_k::<4, 0>);
        $m!(c09_nonint_n3_k1, 18, scen::c09_nonint_k::<4, 1>);
        $m!(c09_nonint_n3_k2, 18, scen::c09_nonint_k::<4, 2>);
        $m!(c09_nonint_n3_k3, 18, scen::c09_nonint_k::<4, 3>);
        $m!(c01_step_n8_k0, 18, scen::c01_step::<9, 0>);
        $m!(c01_step_n8_k1, 18, scen::c01_step::<9, 1>);
        $m!(c01_step_n8_k2, 18, scen::c01_step::<9, 2>);
        $m!(c01_step_n8_k3, 18, scen::c01_step::<9, 3>);
        $m!(c01_walk_n6, 18, scen::c01_walk::<7, 4>);
        $m!(c01_hist_k3, 18, scen::c01_hist::<4, 3>);
        $m!(c02_cas_n8, 18, scen::c02_cas::<9>);
        $m!(c03_one_txn_n8, 18, scen::c03_one_txn::<9, 4>);
        $m!(c03_pairs_n2_gc_av, 18, scen::c03_pairs::<4, 1, 0>);
        $m!(c03_pairs_n2_gs_as, 18, scen::c03_pairs::<4, 3, 2>);
        $m!(c03_race3_replace, 18, scen_race::c03_race3_replace);
        $m!(c04_atomic_ack_n8_k0, 18, scen::c04_atomic_ack::<9, 0>);
        $m!(c04_atomic_ack_n8_k2, 18, scen::c04_atomic_ack::<9, 2>);
        $m!(c05_fault_n5_k0, 18, scen::c05_fault::<6, 0>);
        $m!(c05_fault_n5_k1, 18, scen::c05_fault::<6, 1>);
        $m!(c05_fault_n5_k2, 18, scen::c05_fault::<6, 2>);
        $m!(c05_fault_n5_k3, 18, scen::c05_fault::<6, 3>);
        $m!(c05_fault2_n3_k0, 18, scen::c05_fault2::<5, 0>);
        $m!(c05_fault2_n3_k2, 18, scen::c05_fault2::<5, 2>);
        $m!(c07_frame_n8_k0, 18, scen::c07_frame::<9, 0>);
        $m!(c07_frame_n8_k2, 18, scen::c07_frame::<9, 2>);
        $m!(c08_table_n8, 18, scen::c08_table::<9>);
        $m!(c10_none_n8, 18, scen::c10_none_9);
        $m!(c10_prev_n8, 18, scen::c10_prev_9);
        $m!(c11_none_n8, 18, scen::c11_none_9);
        $m!(c11_prev_n8, 18, scen::c11_prev_9);
        $m!(c18_frame_n8_k0, 18, scen::c18_frame::<9, 0>);
        $m!(c18_frame_n8_k1, 18, scen::c18_frame::<9, 1>);
        $m!(c18_frame_n8_k2, 18, scen::c18_frame::<9, 2>);
        $m!(c18_frame_n8_k3, 18, scen::c18_frame::<9, 3>);
    };
}
