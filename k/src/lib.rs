//! Engine K: bounded model checking (Kani/CBMC) of the compiled `core` crate of /repo over a
//! contract-model storage. The scenario code in `scen` is ordinary Rust, compiled twice: under
//! Kani (nondeterminism = one symbolic byte pool) and natively (pool = bytes recorded by the
//! solver) for replay against the real code.
#![allow(dead_code, clippy::all)]

#[macro_use]
pub mod env;
#[macro_use]
pub mod harness_list;
pub mod model;
pub mod gen_skel;
pub mod scen;
pub mod scen_race;
pub mod spec;
pub mod state;

#[cfg(kani)]
mod proofs;
#[cfg(not(kani))]
pub mod registry;
