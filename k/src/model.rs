//! `ModelStorage`: an executable transcription of the `StorageTxn` contract
//! (core/src/storage.rs), shaped for CBMC: fixed arrays, index-first lookups, `Copy` state.
//! It is the *environment* of the code under verification (`core/src/server.rs`), plus monitors
//! (transaction discipline, call log), a fault plan and an interference hook.
#![allow(static_mut_refs)]

use crate::env::assume;
use chrono::{DateTime, Utc};
use taskchampion_sync_server_core::{Client, Snapshot, Storage, StorageTxn, Version};
use uuid::Uuid;

/// Max payload / snapshot bytes carried through the model.
pub const L: usize = 2;

#[derive(Clone, Copy, PartialEq, Eq, Debug)]
pub struct Bytes {
    pub len: u8,
    pub b: [u8; L],
}
pub const NOBYTES: Bytes = Bytes { len: 0, b: [0; L] };

impl Bytes {
    pub fn from_slice(s: &[u8]) -> Bytes {
        // payloads longer than L are outside the bound of every harness
        assume(s.len() <= L);
        let mut b = [0u8; L];
        let mut i = 0;
        while i < L {
            if i < s.len() {
                b[i] = s[i];
            }
            i += 1;
        }
        Bytes { len: s.len() as u8, b }
    }
    /// Concrete-size allocation per length (a symbolic-size allocation is a CBMC cost trap).
    pub fn to_vec(&self) -> Vec<u8> {
        match self.len {
            0 => Vec::new(),
            1 => vec![self.b[0]],
            _ => vec![self.b[0], self.b[1]],
        }
    }
    pub fn eq_slice(&self, s: &[u8]) -> bool {
        if s.len() != self.len as usize {
            return false;
        }
        let mut ok = true;
        let mut i = 0;
        while i < L {
            if i < s.len() && s[i] != self.b[i] {
                ok = false;
            }
            i += 1;
        }
        ok
    }
}

#[derive(Clone, Copy, PartialEq, Eq, Debug)]
pub struct VRec {
    pub vid: u128,
    pub parent: u128,
    pub data: Bytes,
}
pub const NOVREC: VRec = VRec { vid: 0, parent: 0, data: NOBYTES };

#[derive(Clone, Copy, Eq, Debug)]
pub struct Snap {
    pub vid: u128,
    pub ts: DateTime<Utc>,
    pub since: u32,
    pub data: Bytes,
}
impl PartialEq for Snap {
    fn eq(&self, o: &Snap) -> bool {
        // under Kani the clock is a stub and timestamps are compared exactly; in native replay the
        // real clock runs between the oracle's `now()` and the server's, so allow a few seconds
        #[cfg(kani)]
        let ts_eq = self.ts == o.ts;
        #[cfg(not(kani))]
        let ts_eq = (self.ts - o.ts).num_seconds().abs() <= 5;
        self.vid == o.vid && ts_eq && self.since == o.since && self.data == o.data
    }
}

/// One client's stored state. `C` = capacity of the version array.
#[derive(Clone, Copy, PartialEq, Eq, Debug)]
pub struct Cl<const C: usize> {
    pub id: u128,
    pub exists: bool,
    pub latest: u128,
    pub snap: Option<Snap>,
    pub n: usize,
    pub vers: [VRec; C],
}

impl<const C: usize> Cl<C> {
    pub const ABSENT: Cl<C> = Cl { id: 0, exists: false, latest: 0, snap: None, n: 0, vers: [NOVREC; C] };
    pub fn absent(id: u128) -> Self {
        Cl { id, exists: false, latest: 0, snap: None, n: 0, vers: [NOVREC; C] }
    }
    /// index of the version with this id (C if none); first match
    pub fn pos_of(&self, vid: u128) -> usize {
        let mut found = C;
        let mut i = 0;
        while i < C {
            if i < self.n && self.vers[i].vid == vid && found == C {
                found = i;
            }
            i += 1;
        }
        found
    }
    /// index of the (first) version whose parent is `p` (C if none)
    pub fn child_of(&self, p: u128) -> usize {
        let mut found = C;
        let mut i = 0;
        while i < C {
            if i < self.n && self.vers[i].parent == p && found == C {
                found = i;
            }
            i += 1;
        }
        found
    }
    pub fn base(&self) -> u128 {
        if self.n == 0 {
            0
        } else {
            self.vers[0].parent
        }
    }
}

pub const NCL: usize = 2;

/// A protocol request, as data (so that interference and histories need no closures).
#[derive(Clone, Copy, PartialEq, Eq, Debug)]
pub struct OpReq {
    /// 0 AddVersion, 1 GetChildVersion, 2 AddSnapshot, 3 GetSnapshot
    pub kind: u8,
    pub cid: u128,
    pub arg: u128,
    pub data: Bytes,
}
pub const NOOP: OpReq = OpReq { kind: 3, cid: 0, arg: 0, data: NOBYTES };

/// A protocol response, as `Copy` data.
#[derive(Clone, Copy, PartialEq, Eq, Debug)]
pub enum OpRes {
    NotRun,
    Accepted { vid: u128, urgency: u8 },
    Conflict { latest: u128 },
    ChildFound { vid: u128, parent: u128, data: Bytes },
    ChildNotFound,
    ChildGone,
    SnapshotAck,
    SnapshotFound { vid: u128, data: Bytes },
    SnapshotNone,
    NoSuchClient,
    Error,
}

pub fn urgency_code(u: taskchampion_sync_server_core::SnapshotUrgency) -> u8 {
    use taskchampion_sync_server_core::SnapshotUrgency as U;
    match u {
        U::None => 0,
        U::Low => 1,
        U::High => 2,
    }
}

/// Run one protocol request through the real `Server` entry points and flatten the response.
pub fn run_op(server: &taskchampion_sync_server_core::Server, op: &OpReq) -> OpRes {
    use taskchampion_sync_server_core::*;
    let cid = Uuid::from_u128(op.cid);
    let arg = Uuid::from_u128(op.arg);
    fn err(e: ServerError) -> OpRes {
        let r = match e {
            ServerError::NoSuchClient => OpRes::NoSuchClient,
            ServerError::Other(ref _x) => OpRes::Error,
        };
        std::mem::forget(e);
        r
    }
    match op.kind {
        0 => match server.add_version(cid, arg, op.data.to_vec()) {
            Ok((AddVersionResult::Ok(v), urg)) => OpRes::Accepted { vid: v.as_u128(), urgency: urgency_code(urg) },
            Ok((AddVersionResult::ExpectedParentVersion(l), _)) => OpRes::Conflict { latest: l.as_u128() },
            Err(e) => err(e),
        },
        1 => match server.get_child_version(cid, arg) {
            Ok(GetVersionResult::Success { version_id, parent_version_id, history_segment }) => {
                let data = Bytes::from_slice(&history_segment);
                std::mem::forget(history_segment);
                OpRes::ChildFound { vid: version_id.as_u128(), parent: parent_version_id.as_u128(), data }
            }
            Ok(GetVersionResult::NotFound) => OpRes::ChildNotFound,
            Ok(GetVersionResult::Gone) => OpRes::ChildGone,
            Err(e) => err(e),
        },
        2 => match server.add_snapshot(cid, arg, op.data.to_vec()) {
            Ok(()) => OpRes::SnapshotAck,
            Err(e) => err(e),
        },
        _ => match server.get_snapshot(cid) {
            Ok(Some((v, d))) => {
                let data = Bytes::from_slice(&d);
                std::mem::forget(d);
                OpRes::SnapshotFound { vid: v.as_u128(), data }
            }
            Ok(None) => OpRes::SnapshotNone,
            Err(e) => err(e),
        },
    }
}

#[derive(Clone, Copy, PartialEq, Eq, Debug)]
pub struct Db<const C: usize> {
    pub cl: [Cl<C>; NCL],
}

impl<const C: usize> Db<C> {
    /// Select a client by a (possibly symbolic) slot BY VALUE. Measured alternatives: `&cl[slot]`
    /// (pointer at a symbolic offset: CBMC falls back to byte-level access over the enclosing
    /// object) and `if slot == 0 { &cl[0] } else { &cl[1] }` (pointer if-then-else: every later
    /// dereference is a case split; 5x more SAT variables). A value-level select is a plain mux.
    pub fn get(&self, slot: usize) -> Cl<C> {
        if slot == 0 {
            self.cl[0]
        } else {
            self.cl[1]
        }
    }
    pub fn set(&mut self, slot: usize, c: Cl<C>) {
        if slot == 0 {
            self.cl[0] = c;
        } else {
            self.cl[1] = c;
        }
    }
}

// call kinds (for the log and the fault plan)
pub const K_TXN: u8 = 1;
pub const K_GET_CLIENT: u8 = 2;
pub const K_NEW_CLIENT: u8 = 3;
pub const K_SET_SNAPSHOT: u8 = 4;
pub const K_GET_SNAPSHOT_DATA: u8 = 5;
pub const K_GET_BY_PARENT: u8 = 6;
pub const K_GET_VERSION: u8 = 7;
pub const K_ADD_VERSION: u8 = 8;
pub const K_COMMIT: u8 = 9;

pub const LOGN: usize = 24;

#[derive(Clone, Copy, PartialEq, Eq)]
pub enum NewClientMode {
    /// the documented contract: "The client must not already exist" -> error + monitor flag
    Contract,
    /// SQLite glue semantics as established by engine S: INSERT OR REPLACE resets the row
    Replace,
    /// in-memory backend semantics: error if the client exists
    ErrIfExists,
}

#[derive(Clone, Copy)]
pub struct Mon {
    pub calls: u16,
    pub txns: u8,
    pub open: u8,
    pub nested: bool,
    pub foreign_txn: bool,
    pub expect_client: u128,
    pub check_client: bool,
    pub commits: u8,
    pub writes: u8,
    pub write_after_commit: bool,
    pub double_commit: bool,
    pub precond_violation: bool,
    pub dup_parent_write: bool,
    pub unknown_client_write: bool,
    pub rolled_back_writes: bool,
    pub faults_fired: u8,
    pub last_fault_call: u16,
    pub log: [u8; LOGN],
    pub logn: usize,
}
pub const MON0: Mon = Mon {
    calls: 0,
    txns: 0,
    open: 0,
    nested: false,
    foreign_txn: false,
    expect_client: 0,
    check_client: false,
    commits: 0,
    writes: 0,
    write_after_commit: false,
    double_commit: false,
    precond_violation: false,
    dup_parent_write: false,
    unknown_client_write: false,
    rolled_back_writes: false,
    faults_fired: 0,
    last_fault_call: 0,
    log: [0; LOGN],
    logn: 0,
};

#[derive(Clone, Copy)]
pub struct Faults {
    /// 1-based index of the storage call that fails (0 = none)
    pub f1: u16,
    pub f2: u16,
    /// a failing `commit` takes effect before reporting the error
    pub commit_after_effect: bool,
    /// 1-based index of the storage call *before* which the process crashes (0 = none):
    /// the durable image at that instant is recorded
    pub crash_at: u16,
}
pub const NOFAULTS: Faults = Faults { f1: 0, f2: 0, commit_after_effect: false, crash_at: 0 };

/// The fault plan is a GLOBAL on purpose: as a field of the (heap-allocated) world CBMC does not
/// constant-propagate "no faults", every storage call keeps a live error path and a 30 s harness
/// turns into one that does not finish (measured). Harnesses that inject faults write it.
pub static mut FAULTS: Faults = NOFAULTS;
pub fn set_faults(f: Faults) {
    unsafe {
        FAULTS = f;
    }
}
/// native replay only: back to the state a fresh process starts in (the worlds themselves are
/// overwritten by every scenario's `Handle::new`)
#[cfg(not(kani))]
pub fn reset_globals() {
    unsafe {
        FAULTS = NOFAULTS;
        FAIL_BEGIN = false;
        crate::env::RNG = crate::env::Rng { vals: [0; crate::env::RNG_N], next: 0 };
        crate::env::NOW_SECS = crate::env::NOW0;
        crate::env::NOW_READS = 0;
    }
}
pub fn faults() -> Faults {
    unsafe { FAULTS }
}
/// `txn()` fails -- a CONCRETE per-harness switch, never a symbolic one: if `txn()` may or may not
/// fail, the `Box<dyn StorageTxn>` the server receives carries a vtable pointer of the form
/// ite(failed, junk, &VTABLE), CBMC can no longer resolve the drop of the box and walks all ~40
/// drop glues of the program at every drop site (measured: symex never finishes).
pub static mut FAIL_BEGIN: bool = false;
pub fn set_fail_begin(b: bool) {
    unsafe {
        FAIL_BEGIN = b;
    }
}

pub struct World<const C: usize> {
    pub live: Db<C>,
    pub durable: Db<C>,
    pub mon: Mon,
    pub crash_img: Option<Db<C>>,
    pub new_client_mode: NewClientMode,
    /// interference: run before the `hook_at`-th (1-based) `txn()` call; 0 = disarmed
    pub hook_at: u8,
    pub hook_op: OpReq,
    pub hook_res: OpRes,
    pub in_hook: bool,
    pub cur: Cur,
}

impl<const C: usize> World<C> {
    pub const EMPTY: World<C> = World {
        live: Db { cl: [Cl::<C>::ABSENT; NCL] },
        durable: Db { cl: [Cl::<C>::ABSENT; NCL] },
        mon: MON0,
        crash_img: None,
        new_client_mode: NewClientMode::Contract,
        hook_at: 0,
        hook_op: NOOP,
        hook_res: OpRes::NotRun,
        in_hook: false,
        cur: Cur { slot: NCL, dirty: false, committed: false },
    };
    pub fn new(db: Db<C>) -> Self {
        World {
            live: db,
            durable: db,
            mon: MON0,
            crash_img: None,
            new_client_mode: NewClientMode::Contract,
            hook_at: 0,
            hook_op: NOOP,
            hook_res: OpRes::NotRun,
            in_hook: false,
            cur: Cur { slot: NCL, dirty: false, committed: false },
        }
    }
    fn slot_of(&self, id: u128) -> usize {
        if self.live.cl[0].id == id {
            0
        } else if self.live.cl[1].id == id {
            1
        } else {
            NCL
        }
    }
    /// Count a storage call; returns true if the fault plan makes it fail.
    fn tick(&mut self, kind: u8) -> bool {
        self.mon.calls += 1;
        if self.mon.logn < LOGN {
            self.mon.log[self.mon.logn] = kind;
            self.mon.logn += 1;
        }
        if faults().crash_at != 0 && self.mon.calls == faults().crash_at {
            self.crash_img = Some(self.durable);
        }
        let f = kind != K_TXN
            && ((faults().f1 != 0 && self.mon.calls == faults().f1)
                || (faults().f2 != 0 && self.mon.calls == faults().f2));
        if f {
            self.mon.faults_fired += 1;
            self.mon.last_fault_call = self.mon.calls;
        }
        f
    }
    fn wrote(&mut self, committed: bool) {
        self.mon.writes += 1;
        if committed {
            // after COMMIT a connection is in autocommit mode / the in-memory guard is still
            // held: the write lands immediately and durably
            self.mon.write_after_commit = true;
            self.durable = self.live;
        }
    }
}

fn injected() -> anyhow::Error {
    anyhow::anyhow!("injected storage fault")
}

/// Where the world lives. It must be a typed GLOBAL: a heap allocation is an untyped byte array to
/// CBMC, so every whole-struct copy into it (commit, rollback, set-up) becomes hundreds of
/// byte-wise array updates and every later field read a byte_extract over them (measured: 2.3 M
/// SAT variables for one add_version at C = 4, against 60 k with a global). Statics cannot be
/// generic, hence one static per capacity, selected through `Cap<C>: Store<C>`.
pub struct Cap<const C: usize>;
pub trait Store<const C: usize> {
    fn world() -> &'static mut World<C>;
}
macro_rules! world_static {
    ($c:literal, $name:ident) => {
        pub static mut $name: World<$c> = World::<$c>::EMPTY;
        impl Store<$c> for Cap<$c> {
            fn world() -> &'static mut World<$c> {
                unsafe { &mut *std::ptr::addr_of_mut!($name) }
            }
        }
    };
}
world_static!(1, W1);
world_static!(2, W2);
world_static!(3, W3);
world_static!(4, W4);
world_static!(5, W5);
world_static!(6, W6);
world_static!(7, W7);
world_static!(8, W8);
world_static!(9, W9);
world_static!(10, W10);

/// Handle to the world of capacity C; several handles (several `Server`s) share it, which is
/// also how "several server instances on one data directory" is modelled.
pub struct Handle<const C: usize>;

impl<const C: usize> Handle<C>
where
    Cap<C>: Store<C>,
{
    pub fn new(w: World<C>) -> Self {
        *Cap::<C>::world() = w;
        Handle
    }
    pub fn dup(&self) -> Self {
        Handle
    }
    #[allow(clippy::mut_from_ref)]
    pub fn w(&self) -> &'static mut World<C> {
        Cap::<C>::world()
    }
}

/// A handle whose `txn()` first lets a complete operation of ANOTHER request run (once, before
/// the `hook_at`-th transaction of the observed request). The interfering operation runs on the
/// plain `Handle`, so there is no recursion for CBMC to unwind.
pub struct Hooked<const C: usize>(pub Handle<C>);

impl<const C: usize> Storage for Hooked<C>
where
    Cap<C>: Store<C>,
{
    fn txn(&self, client_id: Uuid) -> anyhow::Result<Box<dyn StorageTxn + '_>> {
        let w = self.0.w();
        if w.hook_at != 0 && w.mon.txns + 1 == w.hook_at {
            w.in_hook = true;
            let op = w.hook_op;
            let other = taskchampion_sync_server_core::Server::new(
                taskchampion_sync_server_core::ServerConfig::default(),
                self.0.dup(),
            );
            let res = run_op(&other, &op);
            std::mem::forget(other);
            let w = self.0.w();
            w.hook_res = res;
            w.in_hook = false;
        }
        self.0.txn(client_id)
    }
}

/// The transaction object is a ZST: per-transaction state lives in the (global) world (`cur`),
/// which is sound because transactions are exclusive (a nested one is flagged by the monitor) and
/// a harness drives one world at a time.
pub struct Txn<const C: usize>
where
    Cap<C>: Store<C>;

#[derive(Clone, Copy)]
pub struct Cur {
    pub slot: usize,
    pub dirty: bool,
    pub committed: bool,
}

impl<const C: usize> Txn<C>
where
    Cap<C>: Store<C>,
{
    fn w(&self) -> &'static mut World<C> {
        Cap::<C>::world()
    }
}

impl<const C: usize> Storage for Handle<C>
where
    Cap<C>: Store<C>,
{
    fn txn(&self, client_id: Uuid) -> anyhow::Result<Box<dyn StorageTxn + '_>> {
        let w = self.w();
        w.tick(K_TXN);
        if unsafe { FAIL_BEGIN } {
            w.mon.faults_fired += 1;
            return Err(injected());
        }
        if !w.in_hook {
            w.mon.txns += 1;
            if w.mon.check_client && client_id.as_u128() != w.mon.expect_client {
                w.mon.foreign_txn = true;
            }
        }
        if w.mon.open > 0 {
            // a second transaction while one is alive: self-deadlock on both real backends
            w.mon.nested = true;
        }
        w.mon.open += 1;
        let slot = w.slot_of(client_id.as_u128());
        w.cur = Cur { slot, dirty: false, committed: false };
        Ok(Box::new(Txn::<C>))
    }
}

impl<const C: usize> Drop for Txn<C>
where
    Cap<C>: Store<C>,
{
    fn drop(&mut self) {
        let w = self.w();
        // the end of the transaction is a crash point too (after the last storage call)
        if faults().crash_at != 0 && w.mon.calls + 1 == faults().crash_at && w.crash_img.is_none() {
            w.crash_img = Some(w.durable);
        }
        w.mon.open -= 1;
        if !w.cur.committed {
            if w.cur.dirty {
                w.mon.rolled_back_writes = true;
            }
            w.live = w.durable;
        }
    }
}

impl<const C: usize> StorageTxn for Txn<C>
where
    Cap<C>: Store<C>,
{
    fn get_client(&mut self) -> anyhow::Result<Option<Client>> {
        let w = self.w();
        if w.tick(K_GET_CLIENT) {
            return Err(injected());
        }
        if w.cur.slot == NCL {
            return Ok(None);
        }
        let c = w.live.get(w.cur.slot);
        if !c.exists {
            return Ok(None);
        }
        Ok(Some(Client {
            latest_version_id: Uuid::from_u128(c.latest),
            snapshot: c.snap.map(|s| Snapshot {
                version_id: Uuid::from_u128(s.vid),
                timestamp: s.ts,
                versions_since: s.since,
            }),
        }))
    }

    fn new_client(&mut self, latest_version_id: Uuid) -> anyhow::Result<()> {
        let w = self.w();
        if w.tick(K_NEW_CLIENT) {
            return Err(injected());
        }
        if w.cur.slot == NCL {
            w.mon.unknown_client_write = true;
            return Err(anyhow::anyhow!("model: more than two clients"));
        }
        if w.live.get(w.cur.slot).exists {
            match w.new_client_mode {
                NewClientMode::Contract => {
                    w.mon.precond_violation = true;
                    return Err(anyhow::anyhow!("client already exists"));
                }
                NewClientMode::ErrIfExists => {
                    return Err(anyhow::anyhow!("client already exists"));
                }
                NewClientMode::Replace => {}
            }
        }
        let mut c = w.live.get(w.cur.slot);
        c.exists = true;
        c.latest = latest_version_id.as_u128();
        c.snap = None;
        w.live.set(w.cur.slot, c);
        w.cur.dirty = true;
        let cm = w.cur.committed;
        w.wrote(cm);
        Ok(())
    }

    fn set_snapshot(&mut self, snapshot: Snapshot, data: Vec<u8>) -> anyhow::Result<()> {
        let w = self.w();
        if w.tick(K_SET_SNAPSHOT) {
            return Err(injected());
        }
        if w.cur.slot == NCL || !w.live.get(w.cur.slot).exists {
            w.mon.unknown_client_write = true;
            return Err(anyhow::anyhow!("no such client"));
        }
        let d = Bytes::from_slice(&data);
        let mut c = w.live.get(w.cur.slot);
        c.snap = Some(Snap {
            vid: snapshot.version_id.as_u128(),
            ts: snapshot.timestamp,
            since: snapshot.versions_since,
            data: d,
        });
        w.live.set(w.cur.slot, c);
        w.cur.dirty = true;
        let cm = w.cur.committed;
        w.wrote(cm);
        Ok(())
    }

    fn get_snapshot_data(&mut self, version_id: Uuid) -> anyhow::Result<Option<Vec<u8>>> {
        let w = self.w();
        if w.tick(K_GET_SNAPSHOT_DATA) {
            return Err(injected());
        }
        if w.cur.slot == NCL || !w.live.get(w.cur.slot).exists {
            return Err(anyhow::anyhow!("no such client"));
        }
        match w.live.get(w.cur.slot).snap {
            Some(s) if s.vid == version_id.as_u128() => Ok(Some(s.data.to_vec())),
            _ => Err(anyhow::anyhow!("unexpected snapshot_version_id")),
        }
    }

    fn get_version_by_parent(&mut self, parent_version_id: Uuid) -> anyhow::Result<Option<Version>> {
        let w = self.w();
        if w.tick(K_GET_BY_PARENT) {
            return Err(injected());
        }
        if w.cur.slot == NCL {
            return Ok(None);
        }
        let c = w.live.get(w.cur.slot);
        let i = c.child_of(parent_version_id.as_u128());
        if i == C {
            Ok(None)
        } else {
            let v = c.vers[i];
            Ok(Some(Version {
                version_id: Uuid::from_u128(v.vid),
                parent_version_id: Uuid::from_u128(v.parent),
                history_segment: v.data.to_vec(),
            }))
        }
    }

    fn get_version(&mut self, version_id: Uuid) -> anyhow::Result<Option<Version>> {
        let w = self.w();
        if w.tick(K_GET_VERSION) {
            return Err(injected());
        }
        if w.cur.slot == NCL {
            return Ok(None);
        }
        let c = w.live.get(w.cur.slot);
        let i = c.pos_of(version_id.as_u128());
        if i == C {
            Ok(None)
        } else {
            let v = c.vers[i];
            Ok(Some(Version {
                version_id: Uuid::from_u128(v.vid),
                parent_version_id: Uuid::from_u128(v.parent),
                history_segment: v.data.to_vec(),
            }))
        }
    }

    fn add_version(
        &mut self,
        version_id: Uuid,
        parent_version_id: Uuid,
        history_segment: Vec<u8>,
    ) -> anyhow::Result<()> {
        let w = self.w();
        if w.tick(K_ADD_VERSION) {
            return Err(injected());
        }
        if w.cur.slot == NCL || !w.live.get(w.cur.slot).exists {
            w.mon.unknown_client_write = true;
            return Err(anyhow::anyhow!("no such client"));
        }
        let vid = version_id.as_u128();
        let par = parent_version_id.as_u128();
        // "Add a version (that must not already exist)": ids are global keys in SQLite
        let mut dup = false;
        let mut s = 0;
        while s < NCL {
            if w.live.cl[s].pos_of(vid) != C {
                dup = true;
            }
            s += 1;
        }
        if dup {
            w.mon.precond_violation = true;
            return Err(anyhow::anyhow!("version already exists"));
        }
        let mut c = w.live.get(w.cur.slot);
        if c.child_of(par) != C {
            // not a documented precondition (SQLite accepts it, in-memory refuses): monitored
            w.mon.dup_parent_write = true;
        }
        let d = Bytes::from_slice(&history_segment);
        // capacity is a bound of the harness, not a behaviour of the backend
        assume(c.n < C);
        let n = c.n;
        c.vers[n] = VRec { vid, parent: par, data: d };
        c.n = n + 1;
        c.latest = vid;
        if let Some(s) = c.snap.as_mut() {
            s.since = s.since.wrapping_add(1);
        }
        w.live.set(w.cur.slot, c);
        w.cur.dirty = true;
        let cm = w.cur.committed;
        w.wrote(cm);
        Ok(())
    }

    fn commit(&mut self) -> anyhow::Result<()> {
        let w = self.w();
        let fail = w.tick(K_COMMIT);
        if fail && !faults().commit_after_effect {
            return Err(injected());
        }
        if w.cur.committed {
            w.mon.double_commit = true;
        }
        w.durable = w.live;
        w.mon.commits += 1;
        w.cur.committed = true;
        if fail {
            return Err(injected());
        }
        Ok(())
    }
}
