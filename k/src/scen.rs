//! Scenarios: one function per harness, generic over the chain capacity `C`.
//! Every scenario draws all of its nondeterminism from the pool, runs the REAL
//! `taskchampion_sync_server_core::Server` entry points over `ModelStorage`, and states its
//! oracle with `chk!` (assert under Kani / recorded failure natively) and `cov!` (vacuity guard).
#![allow(unused_variables)]

use crate::env::*;
use crate::model::*;
use crate::state::*;
use taskchampion_sync_server_core::*;
use uuid::Uuid;

pub fn u(x: u128) -> Uuid {
    Uuid::from_u128(x)
}

/// Which client a request is made for: A (slot 0), B (slot 1) or an id the store has never seen.
pub fn pick_client<const C: usize>(p: &mut Pool, db: &Db<C>) -> (usize, u128) {
    let who = p.u8();
    let other = p.u128();
    assume(who < 3);
    if who == 0 {
        (0, db.cl[0].id)
    } else if who == 1 {
        (1, db.cl[1].id)
    } else {
        assume(other != db.cl[0].id && other != db.cl[1].id);
        (NCL, other)
    }
}

/// Transaction-discipline monitors that must hold after any fault-free operation.
pub fn discipline_ok(m: &Mon) -> bool {
    !m.nested
        && m.open == 0
        && !m.foreign_txn
        && !m.precond_violation
        && !m.dup_parent_write
        && !m.unknown_client_write
        && !m.write_after_commit
        && !m.double_commit
}

pub fn mk_server<const C: usize>(db: Db<C>, cfg: ServerConfig) -> (Handle<C>, Server)
where
    Cap<C>: Store<C>,
{
    let h = Handle::new(World::new(db));
    let server = Server::new(cfg, h.dup());
    (h, server)
}

/// C02: AddVersion is an atomic compare-and-append on the latest version.
pub fn c02_cas<const C: usize>(p: &mut Pool)
where
    Cap<C>: Store<C>,
{
    let db = build_db::<C>(p, C - 1, if C - 1 < 3 { C - 1 } else { 3 }, TsMode::Fixed, false);
    rng_load(p);
    let parent = p.u128();
    let payload = bytes_from_pool(p);
    let (slot, cid) = pick_client(p, &db);
    assume_rng_fresh(&db, &[parent, cid]);
    let (h, server) = mk_server(db, ServerConfig::default());
    h.w().mon.expect_client = cid;
    h.w().mon.check_client = true;

    let r = server.add_version(u(cid), u(parent), payload.to_vec());

    let post = h.w().durable;
    chk!(h.w().live == post, "c02: nothing uncommitted lingers after the call");
    chk!(discipline_ok(&h.w().mon), "c02: transaction discipline");
    let known = slot != NCL && db.get(if slot == NCL { 0 } else { slot }).exists;
    if !known {
        chk!(matches!(r, Err(ServerError::NoSuchClient)), "c02: unknown client -> NoSuchClient");
        chk!(post == db, "c02: unknown client changes nothing");
    } else {
        let c = db.get(slot);
        let expect_accept = c.n == 0 || parent == c.latest;
        match &r {
            Ok((AddVersionResult::Ok(v), _)) => {
                let v = v.as_u128();
                chk!(expect_accept, "c02: accepted only if no versions yet or parent == latest");
                chk!(v != 0, "c02: new id is non-nil");
                chk!(rng_was_drawn(v, 0, rng_drawn()), "c02: new id is a value the RNG produced during this call");
                let mut e = c;
                e.vers[c.n] = VRec { vid: v, parent, data: payload };
                e.n = c.n + 1;
                e.latest = v;
                if let Some(s) = e.snap.as_mut() {
                    s.since += 1;
                }
                chk!(post.get(slot) == e, "c02: post-state = pre-state + (id, submitted parent, submitted payload), latest moved, counter bumped");
                chk!(post.get(1 - slot) == db.get(1 - slot), "c02: other client untouched on accept");
            }
            Ok((AddVersionResult::ExpectedParentVersion(e), urg)) => {
                chk!(!expect_accept, "c02: rejected only if versions exist and parent != latest");
                chk!(e.as_u128() == c.latest, "c02: conflict names the current latest");
                chk!(post == db, "c02: rejection changes nothing");
                chk!(*urg == SnapshotUrgency::None, "c02: no snapshot request on rejection");
            }
            Err(_) => {
                chk!(false, "c02: no error without a storage fault");
            }
        }
        cov!(matches!(r, Ok((AddVersionResult::Ok(_), _))) && c.n == 0, "c02.cov: accepted on empty client");
        cov!(matches!(r, Ok((AddVersionResult::Ok(_), _))) && c.n == C - 1 && c.snap.is_some(), "c02.cov: accepted at full chain with snapshot");
        cov!(matches!(r, Ok((AddVersionResult::ExpectedParentVersion(_), _))) && c.pos_of(parent) != C, "c02.cov: rejected stale ancestor");
        cov!(matches!(r, Ok((AddVersionResult::ExpectedParentVersion(_), _))) && db.get(1 - slot).pos_of(parent) != C, "c02.cov: rejected foreign id");
        cov!(matches!(r, Ok((AddVersionResult::Ok(_), _))) && c.n == 0 && parent != 0, "c02.cov: first version with non-nil parent");
    }
    cov!(!known, "c02.cov: unknown client");
    std::mem::forget(r);
    std::mem::forget(server);
}


// =================================================================================================
// generic pieces

/// An arbitrary protocol request for client `cid`: kind, id argument and payload all symbolic.
pub fn any_op(p: &mut Pool, cid: u128) -> OpReq {
    let kind = p.u8();
    assume(kind < 4);
    let arg = p.u128();
    let data = bytes_from_pool(p);
    OpReq { kind, cid, arg, data }
}

pub fn reset_world<const C: usize>(h: &Handle<C>, db: Db<C>)
where
    Cap<C>: Store<C>,
{
    let mode = h.w().new_client_mode;
    *h.w() = World::new(db);
    h.w().new_client_mode = mode;
}

/// What the specification says a request answers on `pre` (client in `slot`, NCL = unknown) and
/// leaves behind. `vid` is the id the RNG would hand to an accepted AddVersion.
/// Returns (response, post-state, unspecified corner).
pub fn spec_step<const C: usize>(pre: &Db<C>, slot: usize, op: &OpReq, vid: u128) -> (OpRes, Db<C>, bool) {
    let known = slot != NCL && pre.get(if slot == NCL { 0 } else { slot }).exists;
    if !known {
        return (OpRes::NoSuchClient, *pre, false);
    }
    let c = pre.get(slot);
    let mut post = *pre;
    match op.kind {
        0 => {
            if crate::spec::add_version_accepts(&c, op.arg) {
                post.set(slot, crate::spec::add_version_post(&c, vid, op.arg, op.data));
                (OpRes::Accepted { vid, urgency: 255 }, post, false)
            } else {
                (OpRes::Conflict { latest: c.latest }, post, false)
            }
        }
        1 => (crate::spec::get_child(&c, op.arg), post, false),
        2 => match crate::spec::add_snapshot_verdict(&c, op.arg) {
            crate::spec::SnapVerdict::Replace => {
                post.set(slot, crate::spec::add_snapshot_post(&c, op.arg, now(), op.data));
                (OpRes::SnapshotAck, post, false)
            }
            crate::spec::SnapVerdict::Keep => (OpRes::SnapshotAck, post, false),
            crate::spec::SnapVerdict::Unspecified => (OpRes::SnapshotAck, post, true),
        },
        _ => (crate::spec::get_snapshot(&c), post, false),
    }
}

/// The id an accepted AddVersion was given, as observed (response, else the stored record): the
/// oracle must not prescribe WHICH value of the RNG the server uses or how many it draws.
pub fn observed_vid<const C: usize>(r: &OpRes, pre: &Db<C>, post: &Db<C>, slot: usize) -> u128 {
    if let OpRes::Accepted { vid, .. } = r {
        return *vid;
    }
    if slot != NCL {
        let a = pre.get(slot);
        let b = post.get(slot);
        if b.n == a.n + 1 {
            return b.latest;
        }
    }
    rng_val(0)
}

/// response equality up to the urgency of an accepted version (decided separately, C12)
pub fn res_eq(real: &OpRes, spec: &OpRes) -> bool {
    match (real, spec) {
        (OpRes::Accepted { vid: a, .. }, OpRes::Accepted { vid: b, .. }) => a == b,
        _ => real == spec,
    }
}

fn small_b(c: usize) -> usize {
    if c - 1 < 3 {
        c - 1
    } else {
        3
    }
}

/// Common set-up: REACH state of two clients, RNG loaded and fresh, one arbitrary request.
pub struct Setup<const C: usize> {
    pub db: Db<C>,
    pub slot: usize,
    pub cid: u128,
    pub op: OpReq,
}
/// `KIND` < 4 fixes the operation kind (case split across harnesses: the SAT instances of the
/// any-kind harnesses at chain 7 take 10-20 min each, the per-kind ones run in parallel);
/// `KIND` = 4 leaves it symbolic.
pub fn setup_any<const C: usize, const KIND: u8>(p: &mut Pool, ts: TsMode) -> Setup<C> {
    let db = build_db::<C>(p, C - 1, small_b(C), ts, false);
    rng_load(p);
    let (slot, cid) = pick_client(p, &db);
    let mut op = any_op(p, cid);
    if KIND < 4 {
        op.kind = KIND;
    }
    assume_rng_fresh(&db, &[op.arg, cid]);
    Setup { db, slot, cid, op }
}

// =================================================================================================
// C01

/// C01 (step): every protocol request, valid or not, on any client, preserves the reachable shape
/// (one unbranched chain per client, latest = its end, snapshot on the chain) and the discipline.
pub fn c01_step<const C: usize, const KIND: u8>(p: &mut Pool)
where
    Cap<C>: Store<C>,
{
    let s = setup_any::<C, KIND>(p, TsMode::Fixed);
    let (h, server) = mk_server(s.db, ServerConfig::default());
    let r = run_op(&server, &s.op);
    let post = h.w().durable;
    chk!(is_reach(&post.cl[0]), "c01: subject client keeps the reachable shape (single chain, latest at its end)");
    chk!(is_reach(&post.cl[1]), "c01: bystander client keeps the reachable shape");
    chk!(discipline_ok(&h.w().mon), "c01: storage preconditions and transaction discipline respected");
    chk!(r != OpRes::Error, "c01: no error without a storage fault");
    if let OpRes::Accepted { vid, .. } = r {
        // the chain is walked FROM THE PARENT THE CLIENT NAMED: the accepted version hangs on it
        let c = post.get(if s.slot == NCL { 0 } else { s.slot });
        chk!(c.n >= 1 && c.vers[c.n - 1].vid == vid && c.vers[c.n - 1].parent == s.op.arg, "c01: an accepted version is stored as the child of the parent the request named");
    }
    if KIND == 0 || KIND == 4 {
        cov!(matches!(r, OpRes::Accepted { .. }) && s.db.get(if s.slot == NCL { 0 } else { s.slot }).n == C - 1, "c01.cov: append at full bound");
    }
    if KIND == 0 || KIND == 4 {
        cov!(matches!(r, OpRes::Conflict { .. }), "c01.cov: conflict");
    }
    if KIND == 2 || KIND == 4 {
        cov!(matches!(r, OpRes::SnapshotAck) && post != s.db, "c01.cov: snapshot replaced");
    }
    if KIND == 1 || KIND == 4 {
        cov!(matches!(r, OpRes::ChildGone), "c01.cov: gone");
    }
    cov!(matches!(r, OpRes::NoSuchClient), "c01.cov: unknown client");
    std::mem::forget(server);
}

/// Walk client `slot` from its chain base with the real GetChildVersion and compare with the
/// stored order. Returns nothing; asserts.
pub fn walk_chain<const C: usize>(server: &Server, c: &Cl<C>) {
    let mut cur = c.base();
    let mut i = 0;
    while i < C + 1 {
        if i <= c.n {
            let r = run_op(server, &OpReq { kind: 1, cid: c.id, arg: cur, data: NOBYTES });
            if i < c.n {
                let v = c.vers[i];
                chk!(r == OpRes::ChildFound { vid: v.vid, parent: cur, data: v.data }, "c01: walking from the base returns every accepted version once, in acceptance order");
                cur = v.vid;
            } else {
                chk!(r == OpRes::ChildNotFound, "c01: the walk ends with not-found at the latest version");
            }
        }
        i += 1;
    }
}

/// C01 (walk): after an arbitrary request on an arbitrary reachable state the subject's chain is
/// walkable end to end through the real `get_child_version`.
pub fn c01_walk<const C: usize, const KIND: u8>(p: &mut Pool)
where
    Cap<C>: Store<C>,
{
    let s = setup_any::<C, KIND>(p, TsMode::Fixed);
    let (h, server) = mk_server(s.db, ServerConfig::default());
    let r = run_op(&server, &s.op);
    let post = h.w().durable;
    let a = post.cl[0];
    walk_chain(&server, &a);
    chk!(h.w().durable == post, "c01: walking changes nothing");
    if KIND == 0 || KIND == 4 {
        cov!(matches!(r, OpRes::Accepted { .. }) && s.slot == 0 && a.n == C, "c01.cov: walk of a full chain after an append");
    }
    cov!(a.n == 0, "c01.cov: walk of an empty client");
    cov!(a.n > 0 && a.base() != 0, "c01.cov: walk from a non-nil base");
    std::mem::forget(server);
}

/// C01 (history): K arbitrary requests from the state the handler creates (client exists, no
/// versions); no invariant is assumed. Afterwards both clients satisfy REACH and A's chain walks.
pub fn c01_hist<const C: usize, const K: usize>(p: &mut Pool)
where
    Cap<C>: Store<C>,
{
    let ida = p.u128();
    let idb = p.u128();
    assume(ida != idb);
    let mut a = Cl::<C>::absent(ida);
    a.exists = true;
    let mut b = Cl::<C>::absent(idb);
    b.exists = p.bool();
    let db = Db { cl: [a, b] };
    rng_load(p);
    let (h, server) = mk_server(db, ServerConfig::default());
    let mut k = 0;
    let mut accepted = 0;
    while k < K {
        let (slot, cid) = pick_client(p, &db);
        let op = any_op(p, cid);
        // RNG contract: ids still to be handed out are not ids a client already quotes
        let mut q = 0;
        while q < RNG_N {
            if q >= rng_drawn() {
                assume(rng_val(q) != op.arg);
            }
            assume(rng_val(q) != ida && rng_val(q) != idb);
            let mut q2 = 0;
            while q2 < q {
                assume(rng_val(q2) != rng_val(q));
                q2 += 1;
            }
            q += 1;
        }
        let r = run_op(&server, &op);
        chk!(r != OpRes::Error, "c01: no error without a storage fault");
        if matches!(r, OpRes::Accepted { .. }) && slot == 0 {
            accepted += 1;
        }
        k += 1;
    }
    let post = h.w().durable;
    chk!(is_reach(&post.cl[0]), "c01: every state reached from the empty store has the reachable shape (subject)");
    chk!(is_reach(&post.cl[1]), "c01: every state reached from the empty store has the reachable shape (bystander)");
    chk!(post.cl[0].n == accepted, "c01: exactly the accepted versions are stored");
    chk!(discipline_ok(&h.w().mon), "c01: discipline over the history");
    walk_chain(&server, &post.cl[0]);
    cov!(accepted == K, "c01.cov: every request of the history accepted");
    cov!(post.cl[0].snap.is_some(), "c01.cov: history with an accepted snapshot");
    std::mem::forget(server);
}

// =================================================================================================
// C03 (library part)

/// C03 premise 1: every protocol operation uses transactions only for the request's own client,
/// never opens a second one while one is alive, leaves none open.
pub fn c03_one_txn<const C: usize, const KIND: u8>(p: &mut Pool)
where
    Cap<C>: Store<C>,
{
    let s = setup_any::<C, KIND>(p, TsMode::Fixed);
    let (h, server) = mk_server(s.db, ServerConfig::default());
    h.w().mon.expect_client = s.cid;
    h.w().mon.check_client = true;
    let r = run_op(&server, &s.op);
    let m = h.w().mon;
    chk!(!m.nested, "c03: no second transaction while one is alive");
    chk!(m.open == 0, "c03: no transaction left open");
    chk!(!m.foreign_txn, "c03: transactions only for the request's own client id");
    chk!(m.txns >= 1, "c03: the operation ran under a transaction");
    cov!(m.txns == 1, "c03.cov: the operation is a single transaction");
    chk!(!m.write_after_commit && !m.double_commit, "c03: no write outside the transaction");
    if KIND == 0 || KIND == 4 {
        cov!(matches!(r, OpRes::Accepted { .. }), "c03.cov: accepted");
    }
    if KIND == 2 || KIND == 4 {
        cov!(matches!(r, OpRes::SnapshotAck), "c03.cov: snapshot");
    }
    std::mem::forget(server);
}

/// C03 premise 3: for every pairing of operations on one client, letting the second request run
/// (entirely) at any transaction boundary of the first gives responses and a final state equal to
/// one of the two serial orders, computed with the same real code on copies.
pub fn c03_pairs<const C: usize, const K1: u8, const K2: u8>(p: &mut Pool)
where
    Cap<C>: Store<C>,
{
    let db = build_db::<C>(p, C - 2, 0, TsMode::Fixed, false);
    rng_load(p);
    let cid = db.cl[0].id;
    let mut op1 = any_op(p, cid);
    let mut op2 = any_op(p, cid);
    op1.kind = K1;
    op2.kind = K2;
    assume_rng_fresh(&db, &[op1.arg, op2.arg, cid]);
    let at = p.u8();
    assume(at >= 1 && at <= 2);

    let h = Handle::<C>::new(World::new(db));
    // serial order 1;2
    let s = Server::new(ServerConfig::default(), h.dup());
    unsafe { RNG.next = 0 };
    let a1 = run_op(&s, &op1);
    let a2 = run_op(&s, &op2);
    let sa = h.w().durable;
    // serial order 2;1
    reset_world(&h, db);
    unsafe { RNG.next = 0 };
    let b2 = run_op(&s, &op2);
    let b1 = run_op(&s, &op1);
    let sb = h.w().durable;
    // interleaved: request 2 runs when request 1 asks for its `at`-th transaction
    reset_world(&h, db);
    unsafe { RNG.next = 0 };
    h.w().hook_at = at;
    h.w().hook_op = op2;
    let hs = Server::new(ServerConfig::default(), Hooked(h.dup()));
    let i1 = run_op(&hs, &op1);
    let mut i2 = h.w().hook_res;
    if i2 == OpRes::NotRun {
        h.w().hook_at = 0;
        i2 = run_op(&s, &op2);
    }
    let si = h.w().durable;
    let like_a = i1 == a1 && i2 == a2 && si == sa;
    let like_b = i1 == b1 && i2 == b2 && si == sb;
    chk!(like_a || like_b, "c03: overlapping requests answer and leave what some serial order would");
    chk!(i1 != OpRes::Error && i2 != OpRes::Error, "c03: no server error merely because another request overlapped");
    cov!(like_b && !like_a, "c03.cov: interleaving observable as order 2;1");
    if K1 == 0 && K2 == 0 {
        cov!(matches!(i2, OpRes::Accepted { .. }) && matches!(i1, OpRes::Conflict { .. }), "c03.cov: the interfering append wins");
    }
    cov!(h.w().hook_res != OpRes::NotRun, "c03.cov: the second request ran inside the first");
    std::mem::forget(s);
    std::mem::forget(hs);
}

// =================================================================================================
// C04 / C05

/// C04 (transaction level): at every storage-call boundary the durable image is the pre-state or
/// the complete post-state, and an acknowledged write is durable.
pub fn c04_atomic_ack<const C: usize, const KIND: u8>(p: &mut Pool)
where
    Cap<C>: Store<C>,
{
    let s = setup_any::<C, KIND>(p, TsMode::Fixed);
    let crash_at = p.u8();
    assume(crash_at >= 1 && crash_at <= 14);
    set_faults(Faults { f1: 0, f2: 0, commit_after_effect: false, crash_at: crash_at as u16 });
    let (h, server) = mk_server(s.db, ServerConfig::default());
    let r = run_op(&server, &s.op);
    let post = h.w().durable;
    let (_, spost, unspec) = spec_step(&s.db, s.slot, &s.op, observed_vid(&r, &s.db, &post, s.slot));
    if let Some(img) = h.w().crash_img {
        chk!(img == s.db || img == post, "c04: a crash at any storage-call boundary leaves the pre-state or the complete post-state, never a mixture");
    }
    if !unspec {
        chk!(post == spost, "c04: what was acknowledged is durable (committed state = specified post-state)");
    }
    chk!(!h.w().mon.write_after_commit, "c04: no write after the commit");
    cov!(h.w().crash_img.is_some(), "c04.cov: crash point inside the operation");
    if KIND == 0 || KIND == 2 || KIND == 4 {
        cov!(h.w().crash_img.is_some() && post != s.db, "c04.cov: crash point inside a mutating operation");
    }
    if KIND == 0 || KIND == 2 || KIND == 4 {
        cov!(matches!(h.w().crash_img, Some(i) if i == post) && post != s.db, "c04.cov: crash after the commit point");
    }
    let _ = r;
    std::mem::forget(server);
}

/// C05: a storage failure at any call yields an error, never an acknowledgement, and no partial
/// effect; later requests are served normally.
pub fn c05_fault<const C: usize, const KIND: u8>(p: &mut Pool)
where
    Cap<C>: Store<C>,
{
    let s = setup_any::<C, KIND>(p, TsMode::Fixed);
    let f1 = p.u8();
    let after = p.bool();
    assume(f1 >= 1 && f1 <= 12);
    set_faults(Faults { f1: f1 as u16, f2: 0, commit_after_effect: after, crash_at: 0 });
    let (h, server) = mk_server(s.db, ServerConfig::default());
    let r = run_op(&server, &s.op);
    let post = h.w().durable;
    let fired = h.w().mon.faults_fired > 0;
    let (sres, spost, unspec) = spec_step(&s.db, s.slot, &s.op, observed_vid(&r, &s.db, &post, s.slot));
    let failed_call = if fired { h.w().mon.log[(f1 - 1) as usize] } else { 0 };
    if fired {
        chk!(r == OpRes::Error, "c05: a failed storage step is answered with an error, never with a success");
        let lost_ack = after && failed_call == K_COMMIT;
        if lost_ack {
            chk!(unspec || post == spost, "c05: when only the acknowledgement was lost the state is exactly the post-state");
        } else {
            chk!(post == s.db, "c05: after a failed storage step the state is exactly as before the request");
        }
    } else if !unspec {
        chk!(res_eq(&r, &sres) && post == spost, "c05: without a fault the request behaves as specified");
    }
    if fired && (failed_call == K_ADD_VERSION || failed_call == K_SET_SNAPSHOT || failed_call == K_NEW_CLIENT) {
        // a backend whose write is several statements keeps the first of them if the
        // transaction is committed all the same (SQLite: INSERT the version, UPDATE the client)
        chk!(h.w().mon.commits == 0, "c05: a transaction in which a write failed is not committed");
    }
    chk!(h.w().mon.open == 0, "c05: no transaction left open after a failure");
    chk!(h.w().live == post, "c05: nothing half-applied lingers");
    // later requests are served normally
    set_faults(NOFAULTS);
    let slot = if s.slot == NCL { 0 } else { s.slot };
    let c = post.get(slot);
    if c.exists {
        let follow = OpReq { kind: 0, cid: c.id, arg: c.latest, data: s.op.data };
        let r2 = run_op(&server, &follow);
        chk!(matches!(r2, OpRes::Accepted { .. }), "c05: after a failure the next append on the surviving latest is accepted");
    }
    cov!(fired, "c05.cov: a storage call of the operation failed");
    cov!(fired && failed_call == K_GET_CLIENT, "c05.cov: the client read failed");
    if KIND == 0 || KIND == 2 || KIND == 4 {
        cov!(fired && failed_call == K_COMMIT && after, "c05.cov: commit failed after taking effect");
    }
    if KIND == 0 || KIND == 2 || KIND == 4 {
        cov!(fired && failed_call == K_COMMIT && !after, "c05.cov: commit failed before taking effect");
    }
    if KIND == 0 || KIND == 4 {
        cov!(fired && failed_call == K_ADD_VERSION, "c05.cov: version write failed");
    }
    if KIND == 2 || KIND == 4 {
        cov!(fired && failed_call == K_SET_SNAPSHOT, "c05.cov: snapshot write failed");
    }
    if KIND == 2 || KIND == 4 {
        cov!(fired && failed_call == K_GET_VERSION, "c05.cov: read inside the snapshot walk failed");
    }
    std::mem::forget(server);
}

/// C05 (double fault): a failing storage call in one request and another in the next request.
pub fn c05_fault2<const C: usize, const KIND: u8>(p: &mut Pool)
where
    Cap<C>: Store<C>,
{
    let s = setup_any::<C, KIND>(p, TsMode::Fixed);
    let f1 = p.u8();
    let f2 = p.u8();
    let after = p.bool();
    assume(f1 >= 1 && f1 <= 10 && f2 > f1 && f2 <= 20);
    set_faults(Faults { f1: f1 as u16, f2: f2 as u16, commit_after_effect: after, crash_at: 0 });
    let (h, server) = mk_server(s.db, ServerConfig::default());
    let r1 = run_op(&server, &s.op);
    let mid = h.w().durable;
    let fired1 = h.w().mon.faults_fired;
    let slot = if s.slot == NCL { 0 } else { s.slot };
    let c = mid.get(slot);
    assume(c.exists && c.n < C - 1);
    // the next request: an append on whatever latest survived
    let r2 = run_op(&server, &OpReq { kind: 0, cid: c.id, arg: c.latest, data: s.op.data });
    let post = h.w().durable;
    let fired2 = h.w().mon.faults_fired - fired1;
    if fired1 > 0 {
        chk!(r1 == OpRes::Error, "c05: first of two faults: error, never a success");
    }
    if fired2 > 0 {
        chk!(r2 == OpRes::Error, "c05: second of two faults: error, never a success");
        // which of the two planned faults hit this request (the first one may, if the first
        // request made fewer storage calls than its index)
        let hit = h.w().mon.last_fault_call;
        let lost_ack = after && h.w().mon.log[(hit - 1) as usize] == K_COMMIT;
        if !lost_ack {
            chk!(post == mid, "c05: second of two faults: state exactly as before that request");
        } else {
            chk!(post.get(slot).n == c.n + 1 && post.get(slot).vers[c.n].parent == c.latest, "c05: second of two faults, lost acknowledgement: exactly the post-state");
        }
    } else {
        chk!(matches!(r2, OpRes::Accepted { .. }), "c05: the request after a failed one is served normally");
    }
    chk!(h.w().mon.open == 0 && h.w().live == post, "c05: nothing open or half-applied after two faults");
    set_faults(NOFAULTS);
    let c3 = post.get(slot);
    if c3.n < C - 1 {
        let r3 = run_op(&server, &OpReq { kind: 0, cid: c3.id, arg: c3.latest, data: s.op.data });
        chk!(matches!(r3, OpRes::Accepted { .. }), "c05: after two failed requests the next append is accepted");
    }
    cov!(fired1 > 0 && fired2 > 0, "c05.cov: both faults fired");
    std::mem::forget(server);
}

/// C05 (begin): the transaction cannot even be started.
pub fn c05_begin<const C: usize, const KIND: u8>(p: &mut Pool)
where
    Cap<C>: Store<C>,
{
    let s = setup_any::<C, KIND>(p, TsMode::Fixed);
    set_fail_begin(true);
    let (h, server) = mk_server(s.db, ServerConfig::default());
    let r = run_op(&server, &s.op);
    chk!(r == OpRes::Error, "c05: a failed transaction begin is answered with an error, never with a success");
    chk!(h.w().durable == s.db && h.w().live == s.db, "c05: after a failed begin the state is exactly as before the request");
    chk!(h.w().mon.open == 0, "c05: no transaction left open after a failed begin");
    set_fail_begin(false);
    let slot = if s.slot == NCL { 0 } else { s.slot };
    let c = s.db.get(slot);
    if c.exists {
        let r2 = run_op(&server, &OpReq { kind: 0, cid: c.id, arg: c.latest, data: s.op.data });
        chk!(matches!(r2, OpRes::Accepted { .. }), "c05: after a failed begin the next append on the latest is accepted");
        cov!(true, "c05.cov: follow-up append after a failed begin");
    }
    std::mem::forget(server);
}

// =================================================================================================
// C06

/// C06 (library level): payload and snapshot bytes come back byte for byte with matching ids.
pub fn c06_roundtrip<const C: usize>(p: &mut Pool)
where
    Cap<C>: Store<C>,
{
    let db = build_db::<C>(p, C - 1, 0, TsMode::Fixed, false);
    rng_load(p);
    let a = db.cl[0];
    let payload = bytes_from_pool(p);
    let sdata = bytes_from_pool(p);
    let parent = if a.n == 0 { p.u128() } else { a.latest };
    assume_rng_fresh(&db, &[parent, a.id]);
    let (h, server) = mk_server(db, ServerConfig::default());
    let r = run_op(&server, &OpReq { kind: 0, cid: a.id, arg: parent, data: payload });
    match r {
        OpRes::Accepted { vid, .. } => {
            let g = run_op(&server, &OpReq { kind: 1, cid: a.id, arg: parent, data: NOBYTES });
            chk!(g == OpRes::ChildFound { vid, parent, data: payload }, "c06: the version comes back with the uploaded bytes and the matching ids");
            let sn = run_op(&server, &OpReq { kind: 2, cid: a.id, arg: vid, data: sdata });
            chk!(sn == OpRes::SnapshotAck, "c06: snapshot upload acknowledged");
            let gs = run_op(&server, &OpReq { kind: 3, cid: a.id, arg: 0, data: NOBYTES });
            chk!(gs == OpRes::SnapshotFound { vid, data: sdata }, "c06: the snapshot comes back with the uploaded bytes and the matching id");
            cov!(payload.len == 2 && payload.b[0] == 0 && payload.b[1] == 0xff, "c06.cov: payload 00 ff");
            cov!(payload.len == 1 && sdata.len == 2, "c06.cov: lengths 1 and 2");
        }
        _ => {
            chk!(false, "c06: append on the latest is accepted");
        }
    }
    std::mem::forget(server);
}

// =================================================================================================
// C07

/// C07: accepted history is immutable under any later request of any client.
pub fn c07_frame<const C: usize, const KIND: u8>(p: &mut Pool)
where
    Cap<C>: Store<C>,
{
    let s = setup_any::<C, KIND>(p, TsMode::Fixed);
    let idx = p.u8() as usize;
    let (h, server) = mk_server(s.db, ServerConfig::default());
    let r = run_op(&server, &s.op);
    let post = h.w().durable;
    let mut cl = 0;
    while cl < NCL {
        let a = s.db.cl[cl];
        let b = post.cl[cl];
        chk!(b.n >= a.n, "c07: no accepted version is dropped");
        let mut i = 0;
        while i < C {
            if i < a.n {
                chk!(b.vers[i] == a.vers[i], "c07: every accepted version keeps its id, parent and payload");
            }
            i += 1;
        }
        cl += 1;
    }
    // and it is still what GetChildVersion returns for that parent (any earlier version)
    let a = s.db.cl[0];
    if idx < a.n {
        let v = a.vers[idx];
        let g = run_op(&server, &OpReq { kind: 1, cid: a.id, arg: v.parent, data: NOBYTES });
        chk!(g == OpRes::ChildFound { vid: v.vid, parent: v.parent, data: v.data }, "c07: a later request for the child of its parent returns that same version");
    }
    if KIND == 0 || KIND == 4 {
        cov!(idx + 1 < a.n && matches!(r, OpRes::Accepted { .. }) && s.slot == 0, "c07.cov: old version re-read after an append");
    }
    if KIND == 2 || KIND == 4 {
        cov!(idx < a.n && r == OpRes::SnapshotAck && post != s.db, "c07.cov: re-read after an accepted snapshot");
    }
    if KIND == 0 || KIND == 4 {
        cov!(idx < a.n && s.slot == 1 && matches!(r, OpRes::Accepted { .. }), "c07.cov: re-read after another client's append");
    }
    std::mem::forget(server);
}

// =================================================================================================
// C08

/// C08: found / not-found / gone mirrors AddVersion, the AddVersion half being the REAL
/// `add_version` run on the same state.
pub fn c08_table<const C: usize>(p: &mut Pool)
where
    Cap<C>: Store<C>,
{
    let db = build_db::<C>(p, C - 1, small_b(C), TsMode::Fixed, false);
    rng_load(p);
    let (slot, cid) = pick_client(p, &db);
    let q = p.u128();
    assume_rng_fresh(&db, &[q, cid]);
    let (h, server) = mk_server(db, ServerConfig::default());
    let g = run_op(&server, &OpReq { kind: 1, cid, arg: q, data: NOBYTES });
    chk!(h.w().durable == db, "c08: GetChildVersion changes nothing");
    let av = run_op(&server, &OpReq { kind: 0, cid, arg: q, data: NOBYTES });
    let known = slot != NCL && db.get(if slot == NCL { 0 } else { slot }).exists;
    if !known {
        chk!(g == OpRes::NoSuchClient, "c08: a client the server has never seen gets not-found (NoSuchClient)");
    } else {
        let c = db.get(slot);
        let i = c.child_of(q);
        if i != C {
            let v = c.vers[i];
            chk!(g == OpRes::ChildFound { vid: v.vid, parent: v.parent, data: v.data }, "c08: the child of p is returned when one exists");
        } else {
            let acc = matches!(av, OpRes::Accepted { .. });
            let rej = matches!(av, OpRes::Conflict { .. });
            chk!(acc || rej, "c08: AddVersion on the same state answers accepted or conflict");
            chk!((g == OpRes::ChildNotFound) == acc, "c08: not-found exactly when AddVersion(p) would be accepted");
            chk!((g == OpRes::ChildGone) == rej, "c08: gone exactly when AddVersion(p) would be rejected");
        }
        cov!(g == OpRes::ChildNotFound && c.n == 0 && q != 0, "c08.cov: empty client, non-nil p");
        cov!(g == OpRes::ChildNotFound && c.n > 0, "c08.cov: p = latest");
        cov!(g == OpRes::ChildGone && db.get(1 - slot).pos_of(q) != C, "c08.cov: foreign id is gone");
        cov!(matches!(g, OpRes::ChildFound { .. }) && q == c.base() && q != 0, "c08.cov: child of a non-nil base");
        cov!(g == OpRes::ChildGone && q == 0, "c08.cov: nil on a chain with non-nil base");
    }
    std::mem::forget(server);
}

// =================================================================================================
// C09

/// C09: two-run non-interference. Run 1: a request of B then a request of A; run 2: only A's.
pub fn c09_nonint<const C: usize>(p: &mut Pool)
where
    Cap<C>: Store<C>,
{
    c09_nonint_k::<C, 4>(p)
}

/// `KA` < 4 fixes the kind of A's request and restricts B's request to the two mutating kinds (a
/// read by B cannot interfere through storage): the any-kind harness takes 15 min whatever the
/// chain bound, the per-kind ones run side by side. `KA` = 4 leaves both symbolic.
pub fn c09_nonint_k<const C: usize, const KA: u8>(p: &mut Pool)
where
    Cap<C>: Store<C>,
{
    let db = build_db::<C>(p, C - 1, small_b(C), TsMode::Fixed, false);
    rng_load(p);
    let ida = db.cl[0].id;
    let b_known = p.bool();
    let other = p.u128();
    assume(other != ida && other != db.cl[1].id);
    let idb = if b_known { db.cl[1].id } else { other };
    let mut opa = any_op(p, ida);
    let mut opb = any_op(p, idb);
    if KA < 4 {
        opa.kind = KA;
        let b_snap = p.bool();
        opb.kind = if b_snap { 2 } else { 0 };
    }
    assume_rng_fresh(&db, &[opa.arg, opb.arg, ida, idb]);
    let (h, server) = mk_server(db, ServerConfig::default());
    h.w().mon.check_client = false;
    // run 1
    let rb = run_op(&server, &opb);
    let mid = h.w().durable;
    let drawn_by_b = rng_drawn();
    let ra1 = run_op(&server, &opa);
    let end1 = h.w().durable;
    // run 2 (A's request gets the same RNG output as in run 1)
    reset_world(&h, db);
    unsafe { RNG.next = drawn_by_b };
    let ra2 = run_op(&server, &opa);
    let end2 = h.w().durable;
    chk!(ra1 == ra2, "c09: A's response is the same whether or not B's request ran before it");
    chk!(end1.cl[0] == end2.cl[0], "c09: A's state is the same whether or not B's request ran before it");
    chk!(mid.cl[0] == db.cl[0], "c09: B's request does not touch A");
    chk!(end1.cl[1] == mid.cl[1], "c09: A's request does not touch B");
    chk!(end2.cl[1] == db.cl[1], "c09: A's request alone does not touch B");
    if KA == 0 || KA == 4 {
        cov!(matches!(rb, OpRes::Accepted { .. }) && matches!(ra1, OpRes::Accepted { .. }), "c09.cov: both append");
    }
    if KA == 1 || KA == 4 {
        cov!(db.cl[1].pos_of(opa.arg) != C && opa.kind == 1, "c09.cov: A asks for the child of one of B's versions");
    }
    if KA == 2 || KA == 4 {
        cov!(db.cl[1].pos_of(opa.arg) != C && opa.kind == 2, "c09.cov: A uploads a snapshot for one of B's versions");
    }
    cov!(db.cl[0].pos_of(opb.arg) != C && opb.kind == 0, "c09.cov: B appends on one of A's versions");
    std::mem::forget(server);
}

// =================================================================================================
// C10 / C11

/// C10: snapshot acceptance window; C11 pairing read back through the real GetSnapshot.
pub fn c10_window<const C: usize>(p: &mut Pool, with_prev: bool, read_back: bool)
where
    Cap<C>: Store<C>,
{
    let db = build_db::<C>(p, C - 1, 1, TsMode::Fixed, false);
    assume(db.cl[0].snap.is_some() == with_prev);
    rng_load(p);
    let a = db.cl[0];
    let v = p.u128();
    let data = bytes_from_pool(p);
    let (h, server) = mk_server(db, ServerConfig::default());
    let r = run_op(&server, &OpReq { kind: 2, cid: a.id, arg: v, data });
    let post = h.w().durable;
    chk!(r == OpRes::SnapshotAck, "c10: the client is told success either way");
    let verdict = crate::spec::add_snapshot_verdict(&a, v);
    match verdict {
        crate::spec::SnapVerdict::Replace => {
            chk!(post.cl[0] == crate::spec::add_snapshot_post(&a, v, now(), data), "c10: an acceptable snapshot replaces the stored one: id, bytes, fresh timestamp, counter 0");
        }
        crate::spec::SnapVerdict::Keep => {
            chk!(post.cl[0] == a, "c10: otherwise the stored snapshot and its bookkeeping stay untouched");
        }
        crate::spec::SnapVerdict::Unspecified => {}
    }
    chk!(is_reach(&post.cl[0]), "c10: the snapshot version stays on the chain");
    chk!(post.cl[1] == db.cl[1], "c10: other client untouched");
    // never backwards
    if let (Some(j0), Some(j1)) = (snap_j(&a), snap_j(&post.cl[0])) {
        chk!(j1 >= j0, "c10: the snapshot version only ever moves forward along the chain");
    }
    chk!(discipline_ok(&h.w().mon), "c10: discipline");
    if read_back {
        let g = run_op(&server, &OpReq { kind: 3, cid: a.id, arg: 0, data: NOBYTES });
        chk!(g == crate::spec::get_snapshot(&post.cl[0]), "c11: GetSnapshot returns id and bytes of the most recently accepted snapshot, from the same upload");
        if let OpRes::SnapshotFound { vid, .. } = g {
            let nx = run_op(&server, &OpReq { kind: 1, cid: a.id, arg: vid, data: NOBYTES });
            chk!(nx != OpRes::ChildGone && nx != OpRes::Error && nx != OpRes::NoSuchClient, "c11: the snapshot version is a usable base: asking for its child is never answered gone");
        }
    }
    let pos = a.pos_of(v);
    cov!(verdict == crate::spec::SnapVerdict::Replace && pos != C && a.n - 1 - pos == 4, "c10.cov: accepted at the fifth most recent version");
    cov!(verdict == crate::spec::SnapVerdict::Keep && pos != C && a.n - 1 - pos == 5, "c10.cov: declined at the sixth most recent version");
    if with_prev {
        cov!(verdict == crate::spec::SnapVerdict::Keep && pos != C && a.n - 1 - pos < 5, "c10.cov: declined inside the window because a newer or equal snapshot exists");
        cov!(verdict == crate::spec::SnapVerdict::Replace, "c10.cov: older snapshot replaced");
    }
    cov!(verdict == crate::spec::SnapVerdict::Unspecified, "c10.cov: the unspecified corner (v = non-nil base)");
    cov!(v == 0, "c10.cov: nil");
    std::mem::forget(server);
}

/// C11 (schedules at transaction granularity): an AddVersion / AddSnapshot of another request
/// landing between the upload and the fetch keeps pairing and usability.
pub fn c11_interleaved<const C: usize>(p: &mut Pool)
where
    Cap<C>: Store<C>,
{
    let db = build_db::<C>(p, C - 2, 0, TsMode::Fixed, false);
    rng_load(p);
    let a = db.cl[0];
    let v = p.u128();
    let data = bytes_from_pool(p);
    let mut other = any_op(p, a.id);
    assume(other.kind == 0 || other.kind == 2);
    assume_rng_fresh(&db, &[v, other.arg, a.id]);
    let at = p.u8();
    assume(at >= 1 && at <= 2);
    let h = Handle::<C>::new(World::new(db));
    h.w().hook_at = at;
    h.w().hook_op = other;
    let hs = Server::new(ServerConfig::default(), Hooked(h.dup()));
    // the upload (1 transaction) and the fetch (1 transaction): the other request lands before
    // the first or between the two
    let r = run_op(&hs, &OpReq { kind: 2, cid: a.id, arg: v, data });
    let g = run_op(&hs, &OpReq { kind: 3, cid: a.id, arg: 0, data: NOBYTES });
    let post = h.w().durable;
    chk!(r == OpRes::SnapshotAck, "c11: upload acknowledged");
    chk!(g == crate::spec::get_snapshot(&post.cl[0]), "c11: the fetched pair is the stored pair (id and bytes from one upload)");
    chk!(is_reach(&post.cl[0]), "c11: snapshot version on the chain after interleaving");
    if let OpRes::SnapshotFound { vid, .. } = g {
        let nx = run_op(&hs, &OpReq { kind: 1, cid: a.id, arg: vid, data: NOBYTES });
        chk!(nx != OpRes::ChildGone && nx != OpRes::Error, "c11: usable base after interleaving");
    }
    cov!(h.w().hook_res != OpRes::NotRun && matches!(h.w().hook_res, OpRes::Accepted { .. }) && at == 2, "c11.cov: append landed between upload and fetch");
    cov!(h.w().hook_res == OpRes::SnapshotAck && at == 2, "c11.cov: competing snapshot landed between upload and fetch");
    let _ = &mut other;
    std::mem::forget(hs);
}

// =================================================================================================
// C12

/// C12 (wiring): the urgency reported by an accepted AddVersion is max(age urgency, count
/// urgency) computed from the PRE-request snapshot record, high without a snapshot, for symbolic
/// configuration and a fully symbolic counter; ages from the instant table.
pub fn c12_wiring<const C: usize>(p: &mut Pool)
where
    Cap<C>: Store<C>,
{
    let db = build_db::<C>(p, C - 1, 0, TsMode::Table, true);
    rng_load(p);
    let a = db.cl[0];
    let days = p.i64();
    let versions = p.u32();
    assume(days >= 0);
    let payload = bytes_from_pool(p);
    let parent = if a.n == 0 { p.u128() } else { a.latest };
    assume_rng_fresh(&db, &[parent, a.id]);
    if let Some(s) = a.snap {
        assume(s.since < u32::MAX);
    }
    let (h, server) = mk_server(db, ServerConfig { snapshot_days: days, snapshot_versions: versions });
    let r = run_op(&server, &OpReq { kind: 0, cid: a.id, arg: parent, data: payload });
    let measures = a.snap.map(|s| ((now() - s.ts).num_days(), s.since));
    let lo = crate::spec::urgency(measures, days, versions, false);
    let hi = crate::spec::urgency(measures, days, versions, true);
    match r {
        OpRes::Accepted { urgency, .. } => {
            chk!(urgency == lo || urgency == hi, "c12: urgency = max(age urgency, count urgency) of the pre-request snapshot record; high without a snapshot");
            cov!(urgency == 0, "c12.cov: none");
            cov!(urgency == 1, "c12.cov: low");
            cov!(urgency == 2 && a.snap.is_some(), "c12.cov: high with a snapshot");
            cov!(a.snap.is_none(), "c12.cov: no snapshot");
            cov!(urgency == 1 && matches!(measures, Some((d, c)) if d >= days && c < versions), "c12.cov: low because of age only");
            cov!(urgency == 1 && matches!(measures, Some((d, c)) if d < days && c >= versions), "c12.cov: low because of count only");
            cov!(versions > 0x5555_5555, "c12.cov: versions target above MAX/3");
        }
        _ => {
            chk!(false, "c12: the computation succeeds for every configured target (append on the latest is accepted)");
        }
    }
    std::mem::forget(server);
}

// =================================================================================================
// C18

/// C18: every non-mutating outcome leaves the complete committed state bit-identical.
pub fn c18_frame<const C: usize, const KIND: u8>(p: &mut Pool)
where
    Cap<C>: Store<C>,
{
    let s = setup_any::<C, KIND>(p, TsMode::Fixed);
    let (h, server) = mk_server(s.db, ServerConfig::default());
    let r = run_op(&server, &s.op);
    let post = h.w().durable;
    let (sres, spost, unspec) = spec_step(&s.db, s.slot, &s.op, observed_vid(&r, &s.db, &post, s.slot));
    let mutating = match r {
        OpRes::Accepted { .. } => true,
        OpRes::SnapshotAck => spost != s.db || unspec,
        _ => false,
    };
    if !mutating {
        chk!(post == s.db, "c18: reads, conflicts, declined snapshots and unknown clients leave every client's stored state exactly as it was");
        chk!(h.w().live == s.db, "c18: and nothing uncommitted lingers");
    }
    chk!(unspec || res_eq(&r, &sres), "c18: response as specified");
    if KIND == 2 || KIND == 4 {
        cov!(r == OpRes::SnapshotAck && !mutating, "c18.cov: declined snapshot");
    }
    if KIND == 0 || KIND == 4 {
        cov!(matches!(r, OpRes::Conflict { .. }), "c18.cov: conflict");
    }
    if KIND == 1 || KIND == 4 {
        cov!(matches!(r, OpRes::ChildFound { .. }), "c18.cov: child found");
    }
    if KIND == 3 || KIND == 4 {
        cov!(matches!(r, OpRes::SnapshotFound { .. }), "c18.cov: snapshot found");
    }
    cov!(r == OpRes::NoSuchClient, "c18.cov: unknown client");
    std::mem::forget(server);
}

pub fn c10_none_8(p: &mut Pool) { c10_window::<8>(p, false, false) }
pub fn c10_prev_8(p: &mut Pool) { c10_window::<8>(p, true, false) }
pub fn c11_none_8(p: &mut Pool) { c10_window::<8>(p, false, true) }
pub fn c11_prev_8(p: &mut Pool) { c10_window::<8>(p, true, true) }
pub fn c10_none_9(p: &mut Pool) { c10_window::<9>(p, false, false) }
pub fn c10_prev_9(p: &mut Pool) { c10_window::<9>(p, true, false) }
pub fn c11_none_9(p: &mut Pool) { c10_window::<9>(p, false, true) }
pub fn c11_prev_9(p: &mut Pool) { c10_window::<9>(p, true, true) }
