//! Reachable-shaped symbolic states (REACH, DESIGN.md section 2) and the REACH predicate.

use crate::env::{assume, now, Pool, RNG_N};
use crate::model::*;
use chrono::{DateTime, Duration, Utc};

/// Ages (in seconds before "now") a stored snapshot may have in the symbolic pre-state.
/// Concrete table selected by a symbolic index: chrono arithmetic over a symbolic instant does not
/// finish in CBMC; the threshold arithmetic itself is decided at full width by engine M.
pub const AGES: [i64; 8] = [
    0,
    13 * 86400 + 86399,
    14 * 86400,
    20 * 86400 + 86399,
    21 * 86400,
    22 * 86400 + 5,
    400 * 86400,
    86399,
];

pub fn ts_of_age(idx: u8) -> DateTime<Utc> {
    let n = now();
    match idx & 7 {
        0 => n - Duration::seconds(AGES[0]),
        1 => n - Duration::seconds(AGES[1]),
        2 => n - Duration::seconds(AGES[2]),
        3 => n - Duration::seconds(AGES[3]),
        4 => n - Duration::seconds(AGES[4]),
        5 => n - Duration::seconds(AGES[5]),
        6 => n - Duration::seconds(AGES[6]),
        _ => n - Duration::seconds(AGES[7]),
    }
}

#[derive(Clone, Copy, PartialEq, Eq)]
pub enum TsMode {
    /// one concrete snapshot age (keeps chrono constant-folded)
    Fixed,
    /// age chosen by a symbolic index from `AGES`
    Table,
}

pub fn bytes_from_pool(p: &mut Pool) -> Bytes {
    let len = p.u8();
    assume(len as usize <= L);
    let mut b = [0u8; L];
    let mut i = 0;
    while i < L {
        let x = p.u8();
        if i < len as usize {
            b[i] = x;
        }
        i += 1;
    }
    Bytes { len, b }
}

/// Build one client in REACH shape with chain length <= maxn.
/// `free_counter`: the versions-since counter is an arbitrary u32 instead of the REACH value
/// (used only by the urgency wiring harness, where long histories are abstracted by the counter).
pub fn build_client<const C: usize>(
    p: &mut Pool,
    id: u128,
    maxn: usize,
    ts_mode: TsMode,
    free_counter: bool,
) -> Cl<C> {
    let exists = true;
    let n = p.u8() as usize;
    assume(n <= maxn && maxn <= C);
    let base = p.u128();
    let mut vers = [NOVREC; C];
    let mut i = 0;
    while i < C {
        let vid = p.u128();
        let data = bytes_from_pool(p);
        if i < n {
            assume(vid != 0 && vid != base);
            let mut j = 0;
            while j < i {
                assume(vers[j].vid != vid);
                j += 1;
            }
            let parent = if i == 0 { base } else { vers[i - 1].vid };
            vers[i] = VRec { vid, parent, data };
        }
        i += 1;
    }
    let latest = if n == 0 { 0 } else { vers[n - 1].vid };
    let has = p.bool();
    let j = p.u8() as usize; // position + 1 (0 = the chain base)
    let m = p.u8() as usize;
    let age = p.u8();
    let cnt = p.u32();
    let sdata = bytes_from_pool(p);
    let snap = if has {
        assume(n >= 1 && j <= n && m < n);
        assume(j != 0 || base != 0);
        // stored when latest was vers[m]: j-1 <= m <= j-1+4, m >= 0
        assume(m + 1 >= j && m + 1 <= j + 4);
        let vid = if j == 0 { base } else { vers[j - 1].vid };
        let since = if free_counter { cnt } else { (n - 1 - m) as u32 };
        let ts = match ts_mode {
            TsMode::Fixed => now() - Duration::seconds(86400),
            TsMode::Table => ts_of_age(age),
        };
        Some(Snap { vid, ts, since, data: sdata })
    } else {
        None
    };
    Cl { id, exists, latest, snap, n, vers }
}

/// Two clients A (slot 0) and B (slot 1), each REACH, version ids globally distinct,
/// but B's base may be any id of A and vice versa.
pub fn build_db<const C: usize>(
    p: &mut Pool,
    maxn_a: usize,
    maxn_b: usize,
    ts_mode: TsMode,
    free_counter: bool,
) -> Db<C> {
    let ida = p.u128();
    let idb = p.u128();
    assume(ida != idb);
    let a = build_client::<C>(p, ida, maxn_a, ts_mode, free_counter);
    let mut b = build_client::<C>(p, idb, maxn_b, TsMode::Fixed, false);
    // B may also be a client the server has never seen
    let b_exists = p.bool();
    if !b_exists {
        assume(b.n == 0 && b.snap.is_none());
        b.exists = false;
    }
    let mut i = 0;
    while i < C {
        let mut j = 0;
        while j < C {
            if i < a.n && j < b.n {
                assume(a.vers[i].vid != b.vers[j].vid);
            }
            j += 1;
        }
        i += 1;
    }
    Db { cl: [a, b] }
}

/// RNG contract: the values the RNG will hand out are distinct from each other, from every id in
/// the state and from the ids quoted in the request.
pub fn assume_rng_fresh<const C: usize>(db: &Db<C>, req_ids: &[u128]) {
    let mut r = 0;
    while r < RNG_N {
        let x = crate::env::rng_val(r);
        let mut q = 0;
        while q < r {
            assume(crate::env::rng_val(q) != x);
            q += 1;
        }
        let mut s = 0;
        while s < NCL {
            let c = &db.cl[s];
            assume(x != c.id && x != c.base() && x != c.latest);
            let mut i = 0;
            while i < C {
                if i < c.n {
                    assume(c.vers[i].vid != x);
                }
                i += 1;
            }
            if let Some(sn) = c.snap {
                assume(sn.vid != x);
            }
            s += 1;
        }
        let mut k = 0;
        while k < req_ids.len() {
            assume(req_ids[k] != x);
            k += 1;
        }
        r += 1;
    }
}

/// The REACH predicate on a concrete-or-symbolic client record (the inductive invariant).
pub fn is_reach<const C: usize>(c: &Cl<C>) -> bool {
    if !c.exists {
        return c.n == 0 && c.snap.is_none();
    }
    if c.n > C {
        return false;
    }
    let base = c.base();
    let mut ok = true;
    let mut i = 0;
    while i < C {
        if i < c.n {
            let v = c.vers[i];
            if v.vid == 0 || v.vid == base {
                ok = false;
            }
            let mut j = 0;
            while j < i {
                if c.vers[j].vid == v.vid {
                    ok = false;
                }
                j += 1;
            }
            if i > 0 && v.parent != c.vers[i - 1].vid {
                ok = false;
            }
        }
        i += 1;
    }
    let latest = if c.n == 0 { 0 } else { c.vers[c.n - 1].vid };
    if c.latest != latest {
        ok = false;
    }
    if let Some(s) = c.snap {
        if c.n == 0 {
            ok = false;
        } else {
            let pos = c.pos_of(s.vid);
            // j = position + 1, 0 for the base
            let j = if pos != C {
                pos + 1
            } else if s.vid == base && base != 0 {
                0
            } else {
                ok = false;
                0
            };
            if (s.since as usize) > c.n - 1 {
                ok = false;
            } else {
                let m = c.n - 1 - s.since as usize;
                if !(m + 1 >= j && m + 1 <= j + 4) {
                    ok = false;
                }
            }
        }
    }
    ok
}

/// chain position + 1 of the stored snapshot (0 = base), or None
pub fn snap_j<const C: usize>(c: &Cl<C>) -> Option<usize> {
    match c.snap {
        None => None,
        Some(s) => {
            let pos = c.pos_of(s.vid);
            if pos != C {
                Some(pos + 1)
            } else {
                Some(0)
            }
        }
    }
}
