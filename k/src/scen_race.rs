//! C03, the multi-transaction request: the add-version handler is
//! `AV; [NoSuchClient -> create-client transaction; AV]*`. Two (or three) such request automata are
//! interleaved at transaction boundaries by a symbolic schedule; the leaves are the REAL
//! `Server::add_version` / `Server::txn` and the backend's `new_client` semantics.
use crate::env::*;
use crate::gen_skel::*;
use crate::model::*;
use crate::state::*;
use taskchampion_sync_server_core::*;
use uuid::Uuid;

/// one step of one request automaton; returns the response once the request is finished
fn step(server: &Server, cid: u128, parent: u128, data: Bytes, pc: &mut u8) -> OpRes {
    if *pc == 0 {
        let r = run_op(server, &OpReq { kind: 0, cid, arg: parent, data });
        match r {
            OpRes::NoSuchClient => {
                *pc = 1;
                OpRes::NotRun
            }
            other => {
                *pc = 3;
                other
            }
        }
    } else {
        // the create-client transaction of the handler's NoSuchClient arm
        let mut out = OpRes::NotRun;
        match server.txn(Uuid::from_u128(cid)) {
            Err(e) => {
                std::mem::forget(e);
                out = OpRes::Error;
            }
            Ok(mut t) => {
                let mut create = true;
                if CREATE_GUARDED {
                    match t.get_client() {
                        Ok(c) => {
                            create = c.is_none();
                        }
                        Err(e) => {
                            std::mem::forget(e);
                            out = OpRes::Error;
                            create = false;
                        }
                    }
                }
                if create {
                    match t.new_client(Uuid::nil()) {
                        Err(e) => {
                            std::mem::forget(e);
                            // a handler may treat a failing create as "another request created the
                            // client" and simply retry
                            if !CREATE_IGNORE_ERR {
                                out = OpRes::Error;
                            }
                        }
                        Ok(()) => {
                            if let Err(e) = t.commit() {
                                std::mem::forget(e);
                                out = OpRes::Error;
                            }
                        }
                    }
                }
                drop(t);
            }
        }
        if out == OpRes::Error {
            *pc = 3;
        } else {
            *pc = 0;
        }
        out
    }
}

pub fn c03_race<const C: usize, const R: usize, const STEPS: usize>(p: &mut Pool, mode: NewClientMode)
where
    Cap<C>: Store<C>,
{
    chk!(CREATE_FORM_KNOWN, "inconclusive: the handler's NoSuchClient arm has a form the skeleton interpreter does not know");
    let cid = p.u128();
    let other = p.u128();
    assume(cid != other);
    let db = Db { cl: [Cl::<C>::absent(cid), Cl::<C>::absent(other)] };
    rng_load(p);
    let mut parents = [0u128; R];
    let mut datas = [NOBYTES; R];
    let mut i = 0;
    while i < R {
        parents[i] = p.u128();
        datas[i] = bytes_from_pool(p);
        i += 1;
    }
    let mut q = 0;
    while q < RNG_N {
        assume(rng_val(q) != cid && rng_val(q) != other);
        let mut q2 = 0;
        while q2 < q {
            assume(rng_val(q2) != rng_val(q));
            q2 += 1;
        }
        let mut k = 0;
        while k < R {
            assume(rng_val(q) != parents[k]);
            k += 1;
        }
        q += 1;
    }
    let h = Handle::<C>::new(World::new(db));
    h.w().new_client_mode = mode;
    let server = Server::new(ServerConfig::default(), h.dup());
    let mut pc = [0u8; R];
    let mut resp = [OpRes::NotRun; R];
    let mut s = 0;
    #[cfg(not(kani))]
    let mut schedule: Vec<usize> = Vec::new();
    while s < STEPS {
        let who = p.u8() as usize;
        assume(who < R);
        #[cfg(not(kani))]
        schedule.push(who);
        if pc[who] < 3 {
            let r = step(&server, cid, parents[who], datas[who], &mut pc[who]);
            if pc[who] == 3 {
                resp[who] = r;
            }
        }
        s += 1;
    }
    let mut all_done = true;
    let mut i = 0;
    while i < R {
        if pc[i] != 3 {
            all_done = false;
        }
        i += 1;
    }
    assume(all_done);
    let post = h.w().durable;
    let a = post.cl[0];
    // responses: no server error merely because requests overlapped
    let mut accepted = 0;
    let mut i = 0;
    while i < R {
        chk!(resp[i] != OpRes::Error, "c03: no request is answered with a server error merely because another first request overlapped it");
        if matches!(resp[i], OpRes::Accepted { .. }) {
            accepted += 1;
        }
        i += 1;
    }
    chk!(accepted >= 1, "c03: some first request is accepted (serially the first one always is)");
    chk!(a.n == accepted, "c03: every acknowledged version is stored (none orphaned or overwritten)");
    chk!(is_reach(&a), "c03: the acknowledged versions form one chain, no two share a parent");
    // each response is what the serial order given by chain position would produce
    let mut i = 0;
    while i < R {
        match resp[i] {
            OpRes::Accepted { vid, .. } => {
                let pos = a.pos_of(vid);
                chk!(pos != C && a.vers[if pos == C { 0 } else { pos }].parent == parents[i] && a.vers[if pos == C { 0 } else { pos }].data == datas[i], "c03: an accepted request's version is stored with its parent and payload");
            }
            OpRes::Conflict { latest } => {
                chk!(a.pos_of(latest) != C && latest != parents[i], "c03: a conflict names a version that was the latest and differs from the submitted parent");
            }
            _ => {}
        }
        i += 1;
    }
    chk!(!h.w().mon.nested && h.w().mon.open == 0, "c03: transactions never nest and none is left open");
    #[cfg(all(not(kani), feature = "real-backends"))]
    real_race::<R>(mode, &schedule, cid, &parents, &datas);
    cov!(accepted == 1, "c03.cov: one accepted, the rest conflict");
    std::mem::forget(server);
}

pub fn c03_race_replace(p: &mut Pool) {
    c03_race::<3, 2, 6>(p, NewClientMode::Replace)
}
pub fn c03_race_err(p: &mut Pool) {
    c03_race::<3, 2, 6>(p, NewClientMode::ErrIfExists)
}
pub fn c03_race3_replace(p: &mut Pool) {
    c03_race::<4, 3, 9>(p, NewClientMode::Replace)
}


/// Native replay only: the same schedule, the same request automata, against the REAL backend
/// whose `new_client` semantics the model mode stands for (SQLite for Replace, in-memory for
/// ErrIfExists), observed through the public API only.
#[cfg(all(not(kani), feature = "real-backends"))]
fn real_race<const R: usize>(mode: NewClientMode, schedule: &[usize], cid: u128, parents: &[u128; R], datas: &[Bytes; R]) {
    let dir = tempfile::TempDir::new().unwrap();
    let server = match mode {
        NewClientMode::ErrIfExists => Server::new(ServerConfig::default(), InMemoryStorage::new()),
        _ => Server::new(ServerConfig::default(), taskchampion_sync_server_storage_sqlite::SqliteStorage::new(dir.path()).unwrap()),
    };
    let mut pc = [0u8; R];
    let mut resp = [OpRes::NotRun; R];
    for &who in schedule {
        if pc[who] < 3 {
            let r = step(&server, cid, parents[who], datas[who], &mut pc[who]);
            if pc[who] == 3 {
                resp[who] = r;
            }
        }
    }
    if pc.iter().any(|x| *x != 3) {
        return;
    }
    let mut accepted = Vec::new();
    for r in resp.iter() {
        if *r == OpRes::Error {
            crate::env::native::fail("c03(real backend): a first request was answered with a server error merely because another overlapped it");
        }
        if let OpRes::Accepted { vid, .. } = r {
            accepted.push(*vid);
        }
    }
    // every acknowledged version must be on the chain walked from its start
    let mut reach = Vec::new();
    let starts: Vec<u128> = parents.to_vec();
    for st in starts {
        let mut cur = st;
        for _ in 0..(R + 2) {
            match run_op(&server, &OpReq { kind: 1, cid, arg: cur, data: NOBYTES }) {
                OpRes::ChildFound { vid, .. } => {
                    if !reach.contains(&vid) {
                        reach.push(vid);
                    }
                    cur = vid;
                }
                _ => break,
            }
        }
    }
    let mut walk_ok = false;
    for st in parents.iter() {
        // a single walk from one base must return ALL acknowledged versions and end in not-found
        let mut cur = *st;
        let mut seen = 0;
        let mut ended_not_found = false;
        for _ in 0..(R + 2) {
            match run_op(&server, &OpReq { kind: 1, cid, arg: cur, data: NOBYTES }) {
                OpRes::ChildFound { vid, .. } => {
                    seen += 1;
                    cur = vid;
                }
                OpRes::ChildNotFound => {
                    ended_not_found = true;
                    break;
                }
                _ => break,
            }
        }
        if seen == accepted.len() && ended_not_found {
            walk_ok = true;
        }
    }
    if !walk_ok {
        crate::env::native::fail("c03(real backend): the acknowledged versions do not form one chain walkable from its base (a version is orphaned or two share a parent)");
    }
}
