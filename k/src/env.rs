//! Execution environment shared by the Kani build and the native replay build of the same
//! scenario code: the nondeterminism pool, the assertion/cover macros, the RNG and clock stubs.
#![allow(static_mut_refs)]

use chrono::{DateTime, Utc};
use uuid::Uuid;

/// All nondeterminism of a scenario is drawn through `Pool`. Under Kani every draw is a
/// `kani::any()` of the drawn type (a single big symbolic byte array with a cursor was measured to
/// blow the formula up to 4.5 M variables); natively the draws are served, in order, from the
/// value vectors recorded by Kani's concrete playback (one vector per `kani::any()` call, in call
/// order -- the scenario code is the same, so the order is the same).
pub struct Pool {
    #[cfg(not(kani))]
    pub vals: std::collections::VecDeque<Vec<u8>>,
    #[cfg(not(kani))]
    pub underflow: bool,
    /// native witness search: when set, draws beyond the recorded values are generated (small
    /// alphabet, so that ids collide) and every draw is recorded in `trace`
    #[cfg(not(kani))]
    pub search: Option<u64>,
    #[cfg(not(kani))]
    pub trace: Vec<Vec<u8>>,
    pub draws: usize,
}

impl Pool {
    #[cfg(kani)]
    pub fn symbolic() -> Pool {
        Pool { draws: 0 }
    }
    #[cfg(not(kani))]
    pub fn from_vals(v: Vec<Vec<u8>>) -> Pool {
        Pool { vals: v.into(), underflow: false, search: None, trace: Vec::new(), draws: 0 }
    }
    /// A pool that GENERATES its draws (xorshift from `seed`): used after the solver has reported a
    /// failed obligation, to materialise a concrete input that fails it natively. Ids come from a
    /// small alphabet so that the aliasing patterns the bugs need (request id = stored id, two
    /// clients quoting the same id) are likely; the verdict itself is the solver's.
    #[cfg(not(kani))]
    pub fn searching(seed: u64) -> Pool {
        Pool { vals: Default::default(), underflow: false, search: Some(seed | 1), trace: Vec::new(), draws: 0 }
    }
    /// as `searching`, but the first draws are served from `prefix`
    #[cfg(not(kani))]
    pub fn searching_from(seed: u64, prefix: Vec<Vec<u8>>) -> Pool {
        Pool { vals: prefix.into(), underflow: false, search: Some(seed | 1), trace: Vec::new(), draws: 0 }
    }
    #[cfg(not(kani))]
    fn rnd(&mut self) -> u64 {
        let mut x = self.search.unwrap();
        x ^= x << 13;
        x ^= x >> 7;
        x ^= x << 17;
        self.search = Some(x);
        x
    }
    #[cfg(not(kani))]
    fn next<const K: usize>(&mut self) -> [u8; K] {
        self.draws += 1;
        let mut out = [0u8; K];
        match self.vals.pop_front() {
            Some(v) if v.len() == K => out.copy_from_slice(&v),
            Some(_) => self.underflow = true,
            None => {
                if self.search.is_some() {
                    let r = self.rnd();
                    let small = (r >> 8) % 100 < 85;
                    if K == 16 {
                        // ids: nil rarely, otherwise one of a handful of values (in the upper and in
                        // the lower half, so that the v4 bit pattern forced on RNG values keeps them apart)
                        let pick = (r >> 16) % 9;
                        let v: u128 = if pick == 0 { 0 } else if small { (pick as u128) << 100 | pick as u128 } else { ((self.rnd() as u128) << 64) | self.rnd() as u128 };
                        out.copy_from_slice(&v.to_le_bytes()[..K]);
                    } else {
                        let v: u64 = if small { (r >> 16) % 9 } else { self.rnd() };
                        out.copy_from_slice(&v.to_le_bytes()[..K]);
                    }
                } else {
                    self.underflow = true;
                }
            }
        }
        if self.search.is_some() {
            self.trace.push(out.to_vec());
        }
        out
    }
    pub fn u8(&mut self) -> u8 {
        #[cfg(kani)]
        {
            self.draws += 1;
            kani::any()
        }
        #[cfg(not(kani))]
        {
            self.next::<1>()[0]
        }
    }
    pub fn bool(&mut self) -> bool {
        self.u8() & 1 == 1
    }
    pub fn u32(&mut self) -> u32 {
        #[cfg(kani)]
        {
            self.draws += 1;
            kani::any()
        }
        #[cfg(not(kani))]
        {
            u32::from_le_bytes(self.next::<4>())
        }
    }
    pub fn i64(&mut self) -> i64 {
        #[cfg(kani)]
        {
            self.draws += 1;
            kani::any()
        }
        #[cfg(not(kani))]
        {
            i64::from_le_bytes(self.next::<8>())
        }
    }
    pub fn u128(&mut self) -> u128 {
        #[cfg(kani)]
        {
            self.draws += 1;
            kani::any()
        }
        #[cfg(not(kani))]
        {
            u128::from_le_bytes(self.next::<16>())
        }
    }
}

/// `assume`: under Kani a solver assumption; natively a recorded pool that violates it is a
/// replay error (the recorded bytes do not describe a case the harness explored).
#[cfg(kani)]
pub fn assume(c: bool) {
    kani::assume(c)
}
#[cfg(not(kani))]
pub fn assume(c: bool) {
    if !c {
        native::assume_failed();
    }
}

#[cfg(not(kani))]
pub mod native {
    use std::cell::RefCell;
    thread_local! {
        pub static FAILS: RefCell<Vec<&'static str>> = RefCell::new(Vec::new());
        pub static COVERS: RefCell<Vec<&'static str>> = RefCell::new(Vec::new());
        pub static ASSUME_FAILED: RefCell<bool> = RefCell::new(false);
        pub static IDS: RefCell<Vec<u128>> = RefCell::new(Vec::new());
    }
    pub fn fail(m: &'static str) {
        FAILS.with(|f| f.borrow_mut().push(m));
    }
    pub fn cover(m: &'static str) {
        COVERS.with(|f| f.borrow_mut().push(m));
    }
    pub fn assume_failed() {
        ASSUME_FAILED.with(|f| *f.borrow_mut() = true);
        // unwind out of the scenario: nothing after a failed assumption is meaningful
        std::panic::panic_any(AssumeFailed);
    }
    pub struct AssumeFailed;

    /// Materialise a concrete input that fails one of the `wanted` obligations natively (the solver
    /// has already reported them failed). Draws are generated; when an assumption fails, everything
    /// drawn before the last draw(s) is kept and only the tail is re-drawn (the scenarios are written
    /// generatively: an `assume` constrains the draws just before it), so valid states are reached
    /// in a few retries instead of by rejection of whole runs.
    pub fn search(f: fn(&mut super::Pool), seed: u64, budget: u64, wanted: &[String], reset: fn()) -> Option<(Vec<Vec<u8>>, Vec<String>)> {
        let mut prefix: Vec<Vec<u8>> = Vec::new();
        let mut stuck: u32 = 0;
        let mut x = seed | 1;
        for i in 0..budget {
            self::reset();
            reset();
            let s = seed.wrapping_mul(0x9E3779B97F4A7C15).wrapping_add(i.wrapping_mul(0xD1B54A32D192ED03));
            let mut pool = super::Pool::searching_from(s, prefix.clone());
            let r = std::panic::catch_unwind(std::panic::AssertUnwindSafe(|| f(&mut pool)));
            let assume_failed = ASSUME_FAILED.with(|x| *x.borrow());
            x ^= x << 13;
            x ^= x >> 7;
            x ^= x << 17;
            if assume_failed {
                // keep what was drawn before the offending tail; back off further when stuck
                stuck += 1;
                let drop = 1 + (stuck / 40) as usize + if stuck % 7 == 0 { (x % 4) as usize } else { 0 };
                let d = pool.trace.len();
                prefix = pool.trace[..d.saturating_sub(drop)].to_vec();
                if stuck > 2000 {
                    prefix.clear();
                    stuck = 0;
                }
                continue;
            }
            stuck = 0;
            if r.is_err() {
                prefix.clear();
                continue;
            }
            let fails: Vec<String> = FAILS.with(|x| x.borrow().iter().map(|s| s.to_string()).collect());
            if fails.iter().any(|s| wanted.iter().any(|w| w == s)) {
                return Some((pool.trace.clone(), fails));
            }
            // a valid run that does not fail: keep a random part of it (the state), re-draw the rest
            let d = pool.trace.len();
            let keep = match x % 4 {
                0 => 0,
                1 => d.saturating_sub(1 + (x >> 8) as usize % 4),
                _ => (x >> 8) as usize % (d + 1),
            };
            prefix = pool.trace[..keep].to_vec();
        }
        None
    }
    pub fn reset() {
        FAILS.with(|f| f.borrow_mut().clear());
        COVERS.with(|f| f.borrow_mut().clear());
        ASSUME_FAILED.with(|f| *f.borrow_mut() = false);
        IDS.with(|f| f.borrow_mut().clear());
    }
}

#[cfg(kani)]
#[macro_export]
macro_rules! chk {
    ($c:expr, $m:literal) => {
        assert!($c, $m)
    };
}
#[cfg(not(kani))]
#[macro_export]
macro_rules! chk {
    ($c:expr, $m:literal) => {
        if !($c) {
            $crate::env::native::fail($m)
        }
    };
}
#[cfg(kani)]
#[macro_export]
macro_rules! cov {
    ($c:expr, $m:literal) => {
        kani::cover!($c, $m)
    };
}
#[cfg(not(kani))]
#[macro_export]
macro_rules! cov {
    ($c:expr, $m:literal) => {
        if $c {
            $crate::env::native::cover($m)
        }
    };
}

// ------------------------------------------------------------------------------------------------
// RNG stub: `Uuid::new_v4` is replaced (under Kani) by the next value of a pre-drawn pool.

pub const RNG_N: usize = 4;
pub struct Rng {
    pub vals: [u128; RNG_N],
    pub next: usize,
}
pub static mut RNG: Rng = Rng { vals: [0; RNG_N], next: 0 };

/// Make a well-formed v4 UUID out of arbitrary 128 bits (what `Builder::from_random_bytes` does).
pub fn v4ify(x: u128) -> u128 {
    // big-endian byte 6 high nibble = 4, byte 8 top bits = 10
    let x = x & !(0xf000u128 << 64) | (0x4000u128 << 64);
    x & !(0xc000u128 << 48) | (0x8000u128 << 48)
}

pub fn rng_load(p: &mut Pool) {
    let mut i = 0;
    while i < RNG_N {
        let v = v4ify(p.u128());
        unsafe {
            RNG.vals[i] = v;
        }
        i += 1;
    }
    unsafe {
        RNG.next = 0;
    }
}
pub fn rng_val(i: usize) -> u128 {
    unsafe { RNG.vals[i] }
}
pub fn rng_drawn() -> usize {
    unsafe { RNG.next }
}
/// true iff `x` is one of the values the RNG stub handed out in the half-open draw range.
#[cfg(not(kani))]
pub fn rng_was_drawn(x: u128, _from: usize, _to: usize) -> bool {
    // natively the real RNG runs: record the id; the replay driver runs the scenario twice and
    // treats an id that repeats across runs as "not produced by the RNG"
    native::IDS.with(|f| f.borrow_mut().push(x));
    true
}
#[cfg(kani)]
pub fn rng_was_drawn(x: u128, from: usize, to: usize) -> bool {
    let mut i = 0;
    let mut f = false;
    while i < RNG_N {
        if i >= from && i < to && rng_val(i) == x {
            f = true;
        }
        i += 1;
    }
    f
}
pub fn stub_new_v4() -> Uuid {
    unsafe {
        let i = RNG.next;
        assume(i < RNG_N);
        RNG.next = i + 1;
        Uuid::from_u128(RNG.vals[i])
    }
}

// ------------------------------------------------------------------------------------------------
// Clock stub: `Utc::now` returns a value fixed by the harness.

pub const NOW0: i64 = 1_767_225_630; // 2026-01-01T00:00:30Z
pub static mut NOW_SECS: i64 = NOW0;
pub static mut NOW_READS: u32 = 0;

pub fn stub_now() -> DateTime<Utc> {
    unsafe {
        NOW_READS += 1;
        DateTime::from_timestamp(NOW_SECS, 0).unwrap()
    }
}
/// The current instant as the scenario sees it: the stubbed value under Kani, the real clock
/// natively (state timestamps are expressed as `now - delta`, so the replay shifts with it).
pub fn now() -> DateTime<Utc> {
    #[cfg(kani)]
    {
        unsafe { DateTime::from_timestamp(NOW_SECS, 0).unwrap() }
    }
    #[cfg(not(kani))]
    {
        let n = Utc::now();
        DateTime::from_timestamp(n.timestamp(), 0).unwrap()
    }
}

pub fn stub_format(_a: std::fmt::Arguments<'_>) -> String {
    String::new()
}
pub fn stub_anyhow_drop(_e: &mut anyhow::Error) {}
pub fn stub_bt() -> std::backtrace::Backtrace {
    std::backtrace::Backtrace::disabled()
}
