//! GENERATED on every run (by engine H from the MIR path set of the add-version handler).
pub const CREATE_FORM_KNOWN: bool = true;
pub const CREATE_GUARDED: bool = true;
pub const CREATE_IGNORE_ERR: bool = false;
pub const CREATE_CALLS: &str = "txn,get_client,new_client,commit";
