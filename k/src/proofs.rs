//! Kani proof harnesses: thin wrappers that apply the stubs and bounds to a scenario.
use crate::env::*;
use crate::scen;
use crate::scen_race;

macro_rules! harness {
    ($name:ident, $unwind:literal, $f:expr) => {
        #[kani::proof]
        #[kani::unwind($unwind)]
        #[kani::stub(uuid::Uuid::new_v4, stub_new_v4)]
        #[kani::stub(chrono::Utc::now, stub_now)]
        #[kani::stub(alloc::fmt::format, stub_format)]
        #[kani::stub(<anyhow::Error as core::ops::Drop>::drop, stub_anyhow_drop)]
        #[kani::stub(std::backtrace::Backtrace::capture, stub_bt)]
        fn $name() {
            let mut p = Pool::symbolic();
            $f(&mut p);
        }
    };
}

crate::harness_list!(harness);
