//! Native replay registry: run a scenario by harness name on recorded draw values.
use crate::env::{native, Pool};
use crate::scen;
use crate::scen_race;

pub struct NativeResult {
    pub known: bool,
    pub fails: Vec<String>,
    pub covers: Vec<String>,
    pub assume_failed: bool,
    pub underflow: bool,
    pub panicked: bool,
    pub ids: Vec<u128>,
}

fn lookup(name: &str) -> Option<fn(&mut Pool)> {
    macro_rules! reg {
        ($n:ident, $u:literal, $f:expr) => {
            if name == stringify!($n) {
                return Some($f as fn(&mut Pool));
            }
        };
    }
    crate::harness_list!(reg);
    None
}

pub fn run_native(name: &str, vals: Vec<Vec<u8>>) -> NativeResult {
    native::reset();
    let f = match lookup(name) {
        Some(f) => f,
        None => {
            return NativeResult { known: false, fails: vec![], covers: vec![], assume_failed: false, underflow: false, panicked: false, ids: vec![] }
        }
    };
    let mut pool = Pool::from_vals(vals);
    let r = std::panic::catch_unwind(std::panic::AssertUnwindSafe(|| f(&mut pool)));
    let assume_failed = native::ASSUME_FAILED.with(|x| *x.borrow());
    NativeResult {
        known: true,
        fails: native::FAILS.with(|x| x.borrow().iter().map(|s| s.to_string()).collect()),
        covers: native::COVERS.with(|x| x.borrow().iter().map(|s| s.to_string()).collect()),
        assume_failed,
        underflow: pool.underflow,
        panicked: r.is_err() && !assume_failed,
        ids: native::IDS.with(|x| x.borrow().clone()),
    }
}

/// After the solver reported a failed obligation: materialise a failing input natively.
pub fn search_native(name: &str, seed: u64, budget: u64, wanted: &[String]) -> Option<(Vec<Vec<u8>>, Vec<String>)> {
    let f = lookup(name)?;
    native::search(f, seed, budget, wanted, crate::model::reset_globals)
}
