#!/bin/bash
# Apply each seeded change to /repo in turn, run the quick check of the property it breaks (and
# any further checks given as "<dir>:<ID>,<ID>"), record the verdicts, undo the change.
# usage: eval_seeded.sh [dir:IDs ...]   (default: every seeded/<dir> with its own property)
cd "$(dirname "$0")"
out=.build/seeded-eval.log
git -C /repo diff --quiet || { echo "/repo has uncommitted changes"; exit 1; }
specs="$@"
if [ -z "$specs" ]; then
  for d in seeded/*/; do d=$(basename $d); specs="$specs $d:$(python3 -c "import json;print(json.load(open('seeded/$d/meta.json'))['property'])")"; done
fi
for spec in $specs; do
  d=${spec%%:*}; ids=${spec##*:}
  git -C /repo apply /verif/seeded/$d/patch.diff || { echo "$d APPLY-FAILED" | tee -a $out; continue; }
  for id in ${ids//,/ }; do
    t0=$(date +%s)
    ./check $id --tier quick > .build/seeded-$d-$id.txt 2>&1; rc=$?
    echo "$d check=$id rc=$rc $(( $(date +%s) - t0 ))s $(grep -a -E '^(VIOLATION|  violated|INCONCLUSIVE|OK)' .build/seeded-$d-$id.txt | head -3 | cut -c1-220 | tr '\n' '|')" | tee -a $out
  done
  git -C /repo checkout -- .
done
