//! Replay of an engine-H path through the REAL actix App (`WebServer::config`): build the request
//! and the storage state that elicit the path's environment outcomes, send it, dump the response.
use actix_web::{http::header, test, web::Bytes, App};
use futures::stream;
use std::collections::HashSet;
use std::sync::atomic::{AtomicUsize, Ordering};
use std::sync::{Arc, Mutex};
use taskchampion_sync_server::WebServer;
use taskchampion_sync_server_core::*;
use uuid::Uuid;

/// Storage decorator: counts transactions and fails chosen calls (method name, occurrence).
struct Faulty {
    inner: InMemoryStorage,
    txns: Arc<AtomicUsize>,
    plan: Arc<Mutex<Vec<(String, usize)>>>,
    seen: Arc<Mutex<std::collections::HashMap<String, usize>>>,
}
struct FTxn<'a> {
    inner: Box<dyn StorageTxn + 'a>,
    plan: Arc<Mutex<Vec<(String, usize)>>>,
    seen: Arc<Mutex<std::collections::HashMap<String, usize>>>,
}
fn hit(plan: &Arc<Mutex<Vec<(String, usize)>>>, seen: &Arc<Mutex<std::collections::HashMap<String, usize>>>, m: &str) -> bool {
    let mut s = seen.lock().unwrap();
    let n = s.entry(m.to_string()).or_insert(0);
    *n += 1;
    plan.lock().unwrap().iter().any(|(pm, k)| pm == m && *k == *n)
}
impl Storage for Faulty {
    fn txn(&self, client_id: Uuid) -> anyhow::Result<Box<dyn StorageTxn + '_>> {
        self.txns.fetch_add(1, Ordering::SeqCst);
        if hit(&self.plan, &self.seen, "txn") {
            anyhow::bail!("injected");
        }
        Ok(Box::new(FTxn { inner: self.inner.txn(client_id)?, plan: self.plan.clone(), seen: self.seen.clone() }))
    }
}
impl StorageTxn for FTxn<'_> {
    fn get_client(&mut self) -> anyhow::Result<Option<Client>> {
        if hit(&self.plan, &self.seen, "get_client") {
            anyhow::bail!("injected");
        }
        self.inner.get_client()
    }
    fn new_client(&mut self, l: Uuid) -> anyhow::Result<()> {
        if hit(&self.plan, &self.seen, "new_client") {
            anyhow::bail!("injected");
        }
        self.inner.new_client(l)
    }
    fn set_snapshot(&mut self, s: Snapshot, d: Vec<u8>) -> anyhow::Result<()> {
        self.inner.set_snapshot(s, d)
    }
    fn get_snapshot_data(&mut self, v: Uuid) -> anyhow::Result<Option<Vec<u8>>> {
        self.inner.get_snapshot_data(v)
    }
    fn get_version_by_parent(&mut self, p: Uuid) -> anyhow::Result<Option<Version>> {
        self.inner.get_version_by_parent(p)
    }
    fn get_version(&mut self, v: Uuid) -> anyhow::Result<Option<Version>> {
        self.inner.get_version(v)
    }
    fn add_version(&mut self, v: Uuid, p: Uuid, h: Vec<u8>) -> anyhow::Result<()> {
        self.inner.add_version(v, p, h)
    }
    fn commit(&mut self) -> anyhow::Result<()> {
        if hit(&self.plan, &self.seen, "commit") {
            anyhow::bail!("injected");
        }
        self.inner.commit()
    }
}

fn has(labels: &[String], s: &str) -> bool {
    labels.iter().any(|l| l == s || l.contains(s))
}

pub fn replay(j: &serde_json::Value) -> serde_json::Value {
    let handler = j["handler"].as_str().unwrap().to_string();
    let labels: Vec<String> = j["labels"].as_array().unwrap().iter().map(|x| x.as_str().unwrap().to_string()).collect();
    let sizes: Vec<usize> = j["chunk_sizes"].as_array().map(|a| a.iter().map(|x| x.as_u64().unwrap() as usize).collect()).unwrap_or_default();
    let client_id = Uuid::new_v4();
    let storage = InMemoryStorage::new();
    let v1 = Uuid::new_v4();
    let v2 = Uuid::new_v4();
    let mut path_id = Uuid::nil();
    let mut cfg = ServerConfig::default();
    let mut unreplayable: Option<String> = None;
    // ---- state that elicits the library outcome of the path
    let want = |s: &str| has(&labels, s);
    let client_absent = want("no such client");
    if !client_absent || want("#1: no such client") && handler == "add_version" {
        // fallthrough: built below
    }
    {
        let mut t = storage.txn(client_id).unwrap();
        if !client_absent {
            t.new_client(Uuid::nil()).unwrap();
            t.add_version(v1, Uuid::nil(), b"one".to_vec()).unwrap();
            t.add_version(v2, v1, b"two".to_vec()).unwrap();
        }
        match handler.as_str() {
            "add_version" => {
                path_id = v2;
                if want("conflict") {
                    path_id = v1;
                }
                if !client_absent {
                    if want("urgency none") {
                        t.set_snapshot(Snapshot { version_id: v2, timestamp: chrono::Utc::now(), versions_since: 0 }, b"s".to_vec()).unwrap();
                    } else if want("urgency low") {
                        cfg.snapshot_versions = 10;
                        t.set_snapshot(Snapshot { version_id: v2, timestamp: chrono::Utc::now(), versions_since: 10 }, b"s".to_vec()).unwrap();
                    }
                }
                if client_absent && (want("urgency none") || want("urgency low")) {
                    unreplayable = Some("a freshly created client has no snapshot: urgency is high".into());
                }
            }
            "get_child_version" => {
                if want(": found") {
                    path_id = v1;
                } else if want(": gone") {
                    path_id = Uuid::new_v4();
                } else {
                    path_id = v2;
                }
            }
            "add_snapshot" => {
                path_id = v2;
            }
            "get_snapshot" => {
                if want(": found") && !client_absent {
                    t.set_snapshot(Snapshot { version_id: v2, timestamp: chrono::Utc::now(), versions_since: 0 }, b"snapdata".to_vec()).unwrap();
                }
            }
            _ => {}
        }
        t.commit().unwrap();
    }
    // ---- storage errors: which call of the path fails
    let mut plan: Vec<(String, usize)> = Vec::new();
    for l in labels.iter() {
        if l.contains("storage error") {
            let call = l.split(':').next().unwrap_or("");
            let (name, n) = match call.split_once('#') {
                Some((a, b)) => (a.to_string(), b.parse::<usize>().unwrap_or(1)),
                None => (call.to_string(), 1),
            };
            if name == "txn.new_client" {
                plan.push(("new_client".into(), n));
            } else if name == "txn.commit" {
                plan.push(("commit".into(), n));
            } else if name == "txn.get_client" {
                // the create arm's get_client is the 2nd get_client of the request (add_version did the 1st)
                plan.push(("get_client".into(), n + 1));
            } else if name == "txn" {
                // Server::txn of the create arm = 2nd transaction of the request
                plan.push(("txn".into(), n + 1));
            } else {
                // a library call failed: make its transaction begin fail; its index = number of
                // transactions the path opened before it + 1
                let before = labels.iter().take_while(|x| *x != l).filter(|x| x.starts_with("add_version#") || x.starts_with("txn#") || x.starts_with("get_child_version#") || x.starts_with("add_snapshot#") || x.starts_with("get_snapshot#")).count();
                plan.push(("txn".into(), before + 1));
            }
        }
    }
    let txns = Arc::new(AtomicUsize::new(0));
    let faulty = Faulty { inner: storage, txns: txns.clone(), plan: Arc::new(Mutex::new(plan)), seen: Arc::new(Mutex::new(Default::default())) };
    // ---- allow-list
    let allow: Option<HashSet<Uuid>> = if labels.first().map(|s| s.as_str()) == Some("allow-list configured (empty)") {
        Some(HashSet::new())
    } else if labels.first().map(|s| s.as_str()) == Some("allow-list configured") {
        let mut s = HashSet::new();
        if has(&labels, "allow-list contains") {
            s.insert(client_id);
        } else {
            s.insert(Uuid::new_v4());
        }
        Some(s)
    } else {
        None
    };
    let server = WebServer::new(cfg, allow, faulty);
    // ---- the request
    let (method_post, uri, ct_ok) = match handler.as_str() {
        "add_version" => (true, format!("/v1/client/add-version/{}", path_id), "application/vnd.taskchampion.history-segment"),
        "add_snapshot" => (true, format!("/v1/client/add-snapshot/{}", path_id), "application/vnd.taskchampion.snapshot"),
        "get_child_version" => (false, format!("/v1/client/get-child-version/{}", path_id), ""),
        _ => (false, "/v1/client/snapshot".to_string(), ""),
    };
    let rt = actix_rt::System::new();
    let out = rt.block_on(async move {
        let app = test::init_service(App::new().configure(|sc| server.config(sc))).await;
        let mut req = if method_post { test::TestRequest::post() } else { test::TestRequest::get() }.uri(&uri);
        if method_post {
            if has(&labels, "request_content_type !=") {
                req = req.insert_header((header::CONTENT_TYPE, "text/plain"));
            } else {
                req = req.insert_header((header::CONTENT_TYPE, ct_ok));
            }
        }
        if has(&labels, "present") {
            if has(&labels, "header value is not text") {
                req = req.insert_header(("X-Client-Id", header::HeaderValue::from_bytes(b"\xff\xfe").unwrap()));
            } else if has(&labels, "client id malformed") {
                req = req.insert_header(("X-Client-Id", "not-a-uuid"));
            } else {
                req = req.insert_header(("X-Client-Id", client_id.to_string()));
            }
        }
        let mut sreq = req.to_request();
        if method_post {
            let mut items: Vec<Result<Bytes, actix_web::error::PayloadError>> = Vec::new();
            for (i, n) in sizes.iter().enumerate() {
                items.push(Ok(Bytes::from(vec![(b'a' + (i as u8)); *n])));
            }
            if let Some(n) = j["tail_chunk"].as_u64() {
                // the handler stopped reading before the stream ended: the stream goes on
                items.push(Ok(Bytes::from(vec![b'z'; n as usize])));
            }
            if has(&labels, "body stream fails") {
                items.push(Err(actix_web::error::PayloadError::Incomplete(None)));
            }
            let st: std::pin::Pin<Box<dyn futures::Stream<Item = Result<Bytes, actix_web::error::PayloadError>>>> = Box::pin(stream::iter(items));
            let (r2, _old) = sreq.replace_payload(actix_web::dev::Payload::Stream { payload: st });
            sreq = r2;
        }
        let resp = test::call_service(&app, sreq).await;
        let status = resp.status().as_u16();
        let mut hdrs = serde_json::Map::new();
        for name in ["X-Version-Id", "X-Parent-Version-Id", "X-Snapshot-Request", "Content-Type"] {
            if let Some(v) = resp.headers().get(name) {
                hdrs.insert(name.to_string(), serde_json::Value::String(v.to_str().unwrap_or("?").to_string()));
            }
        }
        let body = test::read_body(resp).await;
        // what was stored: read it back through the real App (run-length pattern of the fill bytes)
        let mut stored = String::new();
        if method_post && status == 200 && has(&labels, "client id parses") {
            let uri2 = if uri.contains("add-version") { uri.replace("add-version", "get-child-version") } else { "/v1/client/snapshot".to_string() };
            let r2 = test::TestRequest::get().uri(&uri2).insert_header(("X-Client-Id", client_id.to_string())).to_request();
            let resp2 = test::call_service(&app, r2).await;
            if resp2.status().as_u16() == 200 {
                let b2 = test::read_body(resp2).await;
                let mut last = 0u8;
                let mut run = 0usize;
                for &x in b2.iter() {
                    if x != last {
                        if run > 0 {
                            stored.push_str(&format!("{}{} ", last as char, run));
                        }
                        last = x;
                        run = 0;
                    }
                    run += 1;
                }
                if run > 0 {
                    stored.push_str(&format!("{}{}", last as char, run));
                }
            }
        }
        serde_json::json!({"status": status, "headers": hdrs, "body_len": body.len(), "body": String::from_utf8_lossy(&body[..body.len().min(64)]).to_string(), "stored_pattern": stored.trim()})
    });
    let mut o = out;
    o["storage_transactions"] = serde_json::json!(txns.load(Ordering::SeqCst));
    o["v1"] = serde_json::json!(v1.to_string());
    o["v2"] = serde_json::json!(v2.to_string());
    if let Some(u) = unreplayable {
        o["unreplayable"] = serde_json::json!(u);
    }
    o
}
