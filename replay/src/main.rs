//! Native replay of counterexamples against the real code of /repo.
use chrono::{Duration, Utc};
use std::panic;
use taskchampion_sync_server_core::*;
use uuid::Uuid;

mod http;
mod imem;

/// C12: drive the private urgency kernels through the public API on the real in-memory backend.
fn urgency(kernel: &str, target: i128, measure: i128) -> String {
    let r = panic::catch_unwind(|| {
        let storage = InMemoryStorage::new();
        let client = Uuid::new_v4();
        let v1 = Uuid::new_v4();
        let (cfg, snap) = if kernel == "versions" {
            (
                ServerConfig { snapshot_days: 1 << 40, snapshot_versions: target as u32 },
                Snapshot { version_id: v1, timestamp: Utc::now(), versions_since: measure as u32 },
            )
        } else {
            (
                ServerConfig { snapshot_days: target as i64, snapshot_versions: 1 << 30 },
                Snapshot { version_id: v1, timestamp: Utc::now() - Duration::days(measure as i64), versions_since: 0 },
            )
        };
        {
            let mut t = storage.txn(client).unwrap();
            t.new_client(Uuid::nil()).unwrap();
            t.add_version(v1, Uuid::nil(), vec![1]).unwrap();
            t.set_snapshot(snap, vec![2]).unwrap();
            t.commit().unwrap();
        }
        let server = Server::new(cfg, storage);
        match server.add_version(client, v1, vec![3]) {
            Ok((AddVersionResult::Ok(_), u)) => format!("{:?}", u),
            other => format!("unexpected:{:?}", other.map(|x| x.0)),
        }
    });
    match r {
        Ok(s) => s,
        Err(_) => "panic".to_string(),
    }
}

fn main() {
    let args: Vec<String> = std::env::args().collect();
    panic::set_hook(Box::new(|_| {}));
    match args.get(1).map(|s| s.as_str()) {
        Some("urgency") => {
            let t: i128 = args[3].parse().unwrap();
            let m: i128 = args[4].parse().unwrap();
            println!("{}", urgency(&args[2], t, m));
        }
        Some("k") => {
            let name = &args[2];
            let txt = std::fs::read_to_string(&args[3]).expect("replay file");
            let j: serde_json::Value = serde_json::from_str(&txt).expect("json");
            let vals: Vec<Vec<u8>> = j["vals"]
                .as_array()
                .expect("vals")
                .iter()
                .map(|v| v.as_array().unwrap().iter().map(|x| x.as_u64().unwrap() as u8).collect())
                .collect();
            let passes = 2;
            let mut out = Vec::new();
            for _ in 0..passes {
                out.push(vk::registry::run_native(name, vals.clone()));
            }
            let o = serde_json::json!({
                "scenario": name,
                "known": out[0].known,
                "fails": out[0].fails,
                "covers": out[0].covers,
                "assume_failed": out[0].assume_failed,
                "underflow": out[0].underflow,
                "panicked": out[0].panicked,
                "ids_run1": out[0].ids.iter().map(|x| format!("{:032x}", x)).collect::<Vec<_>>(),
                "ids_run2": out[1].ids.iter().map(|x| format!("{:032x}", x)).collect::<Vec<_>>(),
            });
            println!("{}", o);
        }
        Some("ksearch") => {
            // vreplay ksearch <scenario> <seed> <budget> <obligation>...
            let seed: u64 = args[3].parse().unwrap();
            let budget: u64 = args[4].parse().unwrap();
            let wanted: Vec<String> = args[5..].to_vec();
            match vk::registry::search_native(&args[2], seed, budget, &wanted) {
                Some((vals, fails)) => println!("{}", serde_json::json!({"found": true, "vals": vals, "fails": fails})),
                None => println!("{}", serde_json::json!({"found": false})),
            }
        }
        Some("http") => {
            let txt = std::fs::read_to_string(&args[2]).expect("replay file");
            let j: serde_json::Value = serde_json::from_str(&txt).expect("json");
            println!("{}", http::replay(&j));
        }
        Some("imem") => {
            let txt = std::fs::read_to_string(&args[2]).expect("replay file");
            let j: serde_json::Value = serde_json::from_str(&txt).expect("json");
            println!("{}", imem::replay(&j, "imem"));
        }
        Some("sqlite") => {
            // the same script format, on the real SqliteStorage in a temporary directory
            let txt = std::fs::read_to_string(&args[2]).expect("replay file");
            let j: serde_json::Value = serde_json::from_str(&txt).expect("json");
            println!("{}", imem::replay(&j, "sqlite"));
        }
        _ => {
            eprintln!("usage: vreplay urgency <versions|days> <target> <measure> | vreplay k <scenario> <file>");
            std::process::exit(2);
        }
    }
}
