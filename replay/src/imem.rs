//! Replay for engine I: run a script of `StorageTxn` calls against the REAL `InMemoryStorage`
//! (public API only) and print every call's result. Input: {"steps": [{"client": hex,
//! "calls": [[name, args...], ...]}]}; each step is one transaction (`txn(client)`).
//! Ids are 32 hex digits, payloads 16-bit numbers (two bytes), timestamps whole seconds.
use chrono::{TimeZone, Utc};
use serde_json::{json, Value};
use std::panic::{self, AssertUnwindSafe};
use taskchampion_sync_server_core::*;
use uuid::Uuid;

fn id(v: &Value) -> Uuid {
    Uuid::from_u128(u128::from_str_radix(v.as_str().expect("hex id"), 16).expect("hex id"))
}
fn hex(u: Uuid) -> String {
    format!("{:032x}", u.as_u128())
}
fn bytes(v: &Value) -> Vec<u8> {
    let n = v.as_u64().expect("payload") as u16;
    n.to_be_bytes().to_vec()
}
fn num(b: &[u8]) -> Value {
    if b.len() == 2 {
        json!(u16::from_be_bytes([b[0], b[1]]))
    } else {
        json!({ "bytes": b })
    }
}
fn ver(v: Version) -> Value {
    json!([hex(v.version_id), hex(v.parent_version_id), num(&v.history_segment)])
}

fn call(t: &mut Box<dyn StorageTxn + '_>, c: &Value) -> Value {
    let name = c[0].as_str().expect("call name");
    let r: anyhow::Result<Value> = match name {
        "get_client" => t.get_client().map(|o| match o {
            None => Value::Null,
            Some(cl) => json!([
                hex(cl.latest_version_id),
                cl.snapshot.map(|s| json!([hex(s.version_id), s.timestamp.timestamp(), s.versions_since]))
            ]),
        }),
        "new_client" => t.new_client(id(&c[1])).map(|_| json!("unit")),
        "add_version" => t.add_version(id(&c[1]), id(&c[2]), bytes(&c[3])).map(|_| json!("unit")),
        "set_snapshot" => t
            .set_snapshot(
                Snapshot {
                    version_id: id(&c[1]),
                    timestamp: Utc.timestamp_opt(c[2].as_i64().expect("ts"), 0).unwrap(),
                    versions_since: c[3].as_u64().expect("since") as u32,
                },
                bytes(&c[4]),
            )
            .map(|_| json!("unit")),
        "get_snapshot_data" => t.get_snapshot_data(id(&c[1])).map(|o| o.map(|d| num(&d)).unwrap_or(Value::Null)),
        "get_version_by_parent" => t.get_version_by_parent(id(&c[1])).map(|o| o.map(ver).unwrap_or(Value::Null)),
        "get_version" => t.get_version(id(&c[1])).map(|o| o.map(ver).unwrap_or(Value::Null)),
        "commit" => t.commit().map(|_| json!("unit")),
        _ => Err(anyhow::anyhow!("unknown call")),
    };
    match r {
        Ok(v) => json!({ "ok": v }),
        Err(_) => json!({ "err": true }),
    }
}

pub fn replay(j: &Value, backend: &str) -> Value {
    let mut out = Vec::new();
    for script in j["scripts"].as_array().expect("scripts") {
        // each script runs on a fresh store of the chosen REAL backend
        let tmp = tempfile::TempDir::new().expect("temp dir");
        let mut storage: Box<dyn Storage> = if backend == "sqlite" {
            Box::new(taskchampion_sync_server_storage_sqlite::SqliteStorage::new(tmp.path()).expect("open sqlite"))
        } else {
            Box::new(InMemoryStorage::new())
        };
        let mut steps = Vec::new();
        for step in script["steps"].as_array().expect("steps") {
            let client = id(&step["client"]);
            if backend == "sqlite" && step["reopen"].as_bool() == Some(true) {
                // "the server was restarted here": close the database and open the directory again
                drop(storage);
                storage = Box::new(taskchampion_sync_server_storage_sqlite::SqliteStorage::new(tmp.path()).expect("reopen sqlite"));
            }
            let r = panic::catch_unwind(AssertUnwindSafe(|| {
                let mut res = Vec::new();
                match storage.txn(client) {
                    Err(_) => res.push(json!({ "err": true, "at": "txn" })),
                    Ok(mut t) => {
                        for c in step["calls"].as_array().expect("calls") {
                            res.push(call(&mut t, c));
                        }
                    }
                }
                res
            }));
            match r {
                Ok(res) => steps.push(json!(res)),
                Err(_) => {
                    steps.push(json!("panic"));
                    break; // the lock is poisoned now
                }
            }
        }
        out.push(json!(steps));
    }
    json!({ "results": out })
}
