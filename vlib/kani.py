"""Engine K/S driver: run Kani harnesses of an out-of-tree crate in parallel slots, parse CBMC's
verdict per harness and per named obligation, extract counterexample values by concrete playback."""
import concurrent.futures
import os
import re
import shutil
import time

from .common import BUILD, REPO, log, run

STUB_FLAGS = ['-Z', 'stubbing']
# concrete playback (value vectors of a failed assertion) is a SECOND run, only after a failure:
# measured on s_reads_byid it takes the formula from 2.2 M to 10.5 M variables and cbmc from 2 to 9 GB
PLAYBACK_FLAGS = ['-Z', 'concrete-playback', '--concrete-playback=print']


def crate_tag(crate_dir):
    d = crate_dir.rstrip('/')
    b = os.path.basename(d)
    return 's' if b == 'harness' else b


def prepare_crate(crate_dir):
    """the harness crate follows /repo's lock file"""
    src = os.path.join(REPO, 'Cargo.lock')
    dst = os.path.join(crate_dir, 'Cargo.lock')
    base = os.path.join(crate_dir, 'Cargo.lock.base')
    if os.path.exists(base):
        # crates with extra dependencies keep their own lock file
        return
    if os.path.exists(src):
        # (rewritten only when it differs: the K and S legs run side by side and the S crate
        # depends on the K crate's directory)
        try:
            same = open(src, 'rb').read() == open(dst, 'rb').read()
        except OSError:
            same = False
        if not same:
            shutil.copyfile(src, dst)


def parse_harness_output(out):
    """-> dict(status, checks_total, checks_failed, covers_total, covers_sat, failed: [desc], covers: {desc: status},
    named: {desc: status}, time_s, vars, clauses, symex_s, solver_s)"""
    r = {'status': 'UNKNOWN', 'checks_total': 0, 'checks_failed': 0, 'covers_total': 0, 'covers_sat': 0,
         'failed': [], 'named': {}, 'covers': {}, 'unwind_failed': False, 'undetermined': 0}
    m = re.search(r'\*\* (\d+) of (\d+) failed(?: \((.*?)\))?', out)
    if m:
        r['checks_failed'] = int(m.group(1))
        r['checks_total'] = int(m.group(2))
        if m.group(3) and 'undetermined' in m.group(3):
            mu = re.search(r'(\d+) undetermined', m.group(3))
            r['undetermined'] = int(mu.group(1)) if mu else 1
    m = re.search(r'\*\* (\d+) of (\d+) cover properties satisfied', out)
    if m:
        r['covers_sat'] = int(m.group(1))
        r['covers_total'] = int(m.group(2))
    if 'VERIFICATION:- SUCCESSFUL' in out:
        r['status'] = 'SUCCESS'
    elif 'VERIFICATION:- FAILED' in out:
        r['status'] = 'FAILED'
    m = re.search(r'Verification Time: ([\d.]+)s', out)
    if m:
        r['time_s'] = float(m.group(1))
    m = re.search(r'(\d+) variables, (\d+) clauses', out)
    if m:
        r['vars'], r['clauses'] = int(m.group(1)), int(m.group(2))
    m = re.search(r'Runtime Symex: ([\d.]+)s', out)
    if m:
        r['symex_s'] = float(m.group(1))
    r['solver_s'] = round(sum(float(x) for x in re.findall(r'Runtime Solver: ([\d.]+)s', out)), 2)
    # per-check blocks
    for blk in re.finditer(r'Check \d+: (.*)\n\s+- Status: (\w+)\n\s+- Description: (.*)\n', out):
        name, status, desc = blk.group(1), blk.group(2), blk.group(3).strip().strip('"')
        if re.match(r'^c\d\d[.:]|^s\d\d|^c\d\d\.cov', desc) or re.match(r'^[cs]_?\w*\d\d', desc):
            if '.cov' in desc.split(':')[0]:
                r['covers'][desc] = status
            else:
                # the same obligation can appear once per monomorphisation / call site: worst wins
                prev = r['named'].get(desc)
                if prev is None or status == 'FAILURE' or (status == 'UNDETERMINED' and prev == 'SUCCESS'):
                    r['named'][desc] = status
        if status == 'FAILURE':
            r['failed'].append(desc)
            if 'unwinding assertion' in desc:
                r['unwind_failed'] = True
    if 'CBMC failed' in out or 'Status: ERROR' in out or 'out of memory' in out.lower() or 'std::bad_alloc' in out:
        if r['status'] != 'FAILED' or r['checks_total'] == 0:
            r['status'] = 'ERROR'
    return r


def run_harness(crate_dir, slot, harness, timeout, mem_gb=None, extra=None):
    tdir = os.path.join(BUILD, crate_tag(crate_dir) + '-t%d' % (slot + int(os.environ.get('VERIF_SLOT_BASE', '0') or 0)))
    os.makedirs(BUILD, exist_ok=True)
    logp = os.path.join(BUILD, 'log-%s-%s.txt' % (crate_tag(crate_dir), harness))
    cmd = ['cargo', 'kani', '--target-dir', tdir] + STUB_FLAGS + ['--harness', 'proofs::' + harness, '--exact'] + (extra or [])
    rc, out, secs = run(cmd, cwd=crate_dir, timeout=timeout, mem_gb=mem_gb, stdout_path=logp)
    res = parse_harness_output(out)
    res['harness'] = harness
    res['wall_s'] = round(secs, 1)
    res['rc'] = rc
    res['log'] = logp
    if rc == 124:
        res['status'] = 'TIMEOUT'
        # make sure no solver survives its driver
    if res['status'] == 'UNKNOWN' and rc != 0:
        res['status'] = 'ERROR'
        res['error_tail'] = out[-1500:]
    return res


class SlotPool:
    def __init__(self, n):
        import queue
        self.q = queue.Queue()
        for i in range(n):
            self.q.put(i)

    def acquire(self):
        return self.q.get()

    def release(self, i):
        self.q.put(i)


def run_many(crate_dir, harnesses, timeout, jobs=6, mem_gb=None, extra=None):
    """run harnesses in parallel, each in a build slot of its own; returns list of result dicts"""
    prepare_crate(crate_dir)
    pool = SlotPool(jobs)
    results = []

    def one(h):
        s = pool.acquire()
        try:
            t0 = time.time()
            r = run_harness(crate_dir, s, h, timeout, mem_gb, extra)
            log('  [%s] %s: %s (%d checks, %d failed, covers %d/%d, %.0fs)' % (
                crate_tag(crate_dir), h, r['status'], r['checks_total'], r['checks_failed'], r['covers_sat'], r['covers_total'], time.time() - t0))
            return r
        finally:
            pool.release(s)

    with concurrent.futures.ThreadPoolExecutor(max_workers=jobs) as ex:
        for r in ex.map(one, harnesses):
            results.append(r)
    return results


def playback_values(crate_dir, slot, harness, timeout):
    """re-run a failing harness with concrete playback and return
    [ {'kind': 'fail'|'cover', 'vals': [[bytes...]...]} ... ] in the order Kani printed them"""
    r = run_harness(crate_dir, slot, harness, timeout, mem_gb=None, extra=['-Z', 'concrete-playback', '--concrete-playback=print'])
    out = open(r['log'], 'rb').read().decode('utf-8', 'replace')
    tests = []
    for m in re.finditer(r'fn (kani_concrete_playback_\w+)\(\) \{(.*?)\n\}', out, re.S):
        body = m.group(2)
        vals = []
        for v in re.finditer(r'vec!\[([^\]]*)\]', body):
            txt = v.group(1).strip()
            if txt.startswith('vec!'):
                continue
            nums = [int(x) for x in re.findall(r'\d+', txt)] if txt else []
            vals.append(nums)
        # the outer `let concrete_vals: Vec<Vec<u8>> = vec![ ... ]` is matched as the first entry when
        # it contains nested vec!s; drop an entry that swallowed brackets
        tests.append({'name': m.group(1), 'vals': vals})
    return r, tests, out
