"""Engine M driver for C12: dump MIR of the `core` crate from /repo's working tree (dev and release
overflow settings), encode SnapshotUrgency::for_days / for_versions_since with m/mir2smt.py, discharge
the queries with z3 AND cvc5, replay any model natively."""
import json
import os
import re
import subprocess
import sys
import time

from .common import BUILD, REPO, VERIF, log, run

sys.path.insert(0, os.path.join(VERIF, 'm'))
import mirlib  # noqa: E402
import mir2smt  # noqa: E402

KERNELS = [
    # (function name, measure type width, signed, config field type)
    ('for_days', 64, True, 'i64'),
    ('for_versions_since', 32, False, 'u32'),
]
# the repo's own unit-test vectors (core/src/server.rs: snapshot_urgency_for_days /
# snapshot_urgency_for_versions_since with ServerConfig::default() = 14 days / 100 versions)
TEST_VECTORS = {
    'for_days': [(14, 0, 'None'), (14, 14, 'Low'), (14, 28, 'High')],
    'for_versions_since': [(100, 0, 'None'), (100, 100, 'Low'), (100, 200, 'High')],
}


def dump_mir(profile):
    """profile: 'dev' (overflow checks on) or 'release' (off, as in the shipped build)"""
    d = os.path.join(BUILD, 'mir', profile)
    os.makedirs(d, exist_ok=True)
    outp = os.path.join(d, 'core.mir')
    nonce = 'verif_nonce_%d' % int(time.time() * 1000)
    oc = 'on' if profile == 'dev' else 'off'
    cmd = ['cargo', '+nightly', 'rustc', '--offline', '-p', 'taskchampion-sync-server-core', '--lib', '--',
           '-Zunpretty=mir', '-C', 'debug-assertions=off', '-C', 'overflow-checks=' + oc, '--cfg', nonce,
           '--check-cfg', 'cfg(%s)' % nonce]
    env = {'CARGO_TARGET_DIR': os.path.join(d, 'target')}
    e = dict(os.environ)
    e.update(env)
    e['CARGO_NET_OFFLINE'] = 'true'
    t0 = time.time()
    p = subprocess.run(cmd, cwd=REPO, env=e, stdout=subprocess.PIPE, stderr=subprocess.PIPE)
    if p.returncode != 0 or not p.stdout.strip():
        raise RuntimeError('MIR dump failed (%s): %s' % (profile, p.stderr.decode()[-800:]))
    open(outp, 'wb').write(p.stdout)
    return outp, time.time() - t0


def encode_kernel(mir_path, fname, w, signed, fty):
    text = open(mir_path).read()
    funcs = mirlib.parse_functions(text)
    cands = [f for f in mirlib.find_function(funcs, fname) if 'SnapshotUrgency' in f.ret]
    if len(cands) != 1:
        raise mir2smt.Unsupported('expected exactly one function named %s returning SnapshotUrgency, found %d' % (fname, len(cands)))
    f = cands[0]
    if len(f.args) != 2:
        raise mir2smt.Unsupported('%s: unexpected arity' % fname)
    cfg_local, measure_local = f.args[0][0], f.args[1][0]
    mty = f.args[1][1]
    if mty not in mir2smt.INT_TY or mir2smt.INT_TY[mty] != (w, signed):
        raise mir2smt.Unsupported('%s: measure type %s' % (fname, mty))

    def field(local, idx, ty):
        if local != cfg_local:
            raise mir2smt.Unsupported('deref of ' + local)
        if ty != fty:
            # the other target: a kernel must only depend on its own target
            raise mir2smt.Unsupported('%s reads config field of type %s' % (fname, ty))
        return mir2smt.BV('T', w, signed)

    k = mir2smt.Kernel(f, {measure_local: mir2smt.BV('M', w, signed)}, field)
    paths = k.run()
    return f, paths, sorted(k.ops_seen)


def smt_defs(paths, w):
    term = mir2smt.paths_to_term(paths)
    return '(define-fun f ((T (_ BitVec %d)) (M (_ BitVec %d))) (_ BitVec 2) %s)\n' % (w, w, term)


def spec_defs(w, signed):
    """the specification in 2w+8-bit arithmetic: thresholds floor/ceil of 1.5T, saturated or not"""
    W = 2 * w + 8
    e = 'sign_extend' if signed else 'zero_extend'
    k = W - w
    tmax = (1 << (w - 1)) - 1 if signed else (1 << w) - 1
    s = []
    s.append('(define-fun X ((a (_ BitVec %d))) (_ BitVec %d) ((_ %s %d) a))' % (w, W, e, k))
    for name, add in (('Hf', 0), ('Hc', 1)):
        s.append('(define-fun %s ((T (_ BitVec %d))) (_ BitVec %d) (bvsdiv (bvadd (bvmul (X T) (_ bv3 %d)) (_ bv%d %d)) (_ bv2 %d)))' % (name, w, W, W, add, W, W))
    s.append('(define-fun sat ((h (_ BitVec %d))) (_ BitVec %d) (ite (bvsgt h (_ bv%d %d)) (_ bv%d %d) h))' % (W, W, tmax, W, tmax, W))
    # spec result for a given threshold h
    s.append('(define-fun S ((T (_ BitVec %d)) (M (_ BitVec %d)) (h (_ BitVec %d))) (_ BitVec 2) '
             '(ite (bvsge (X M) h) (_ bv2 2) (ite (bvsge (X M) (X T)) (_ bv1 2) (_ bv0 2))))' % (w, w, W))
    return '\n'.join(s) + '\n', W


def queries(w, signed):
    ge0 = '(bvsge T (_ bv0 %d))' % w if signed else 'true'
    le = 'bvsle' if signed else 'bvule'
    lt = 'bvslt' if signed else 'bvult'
    q = {}
    # "for every configured target value the computation succeeds": EVERY value of the type,
    # negative day targets included (thresholds are only meaningful for targets >= 0, so the
    # threshold queries below keep that restriction; totality and monotonicity do not)
    q['Q_total'] = ('no panic for any target (negative ones included) and any measure',
                    '(assert (= (f T M) (_ bv3 2)))')
    q['Q_spec'] = ('result = high iff measure >= 1.5*target (either rounding of the half, saturated at the type maximum or not), low iff target <= measure < that, none otherwise',
                   '(assert %s) (assert (not (= (f T M) (_ bv3 2)))) (assert (and (distinct (f T M) (S T M (Hf T))) (distinct (f T M) (S T M (Hc T))) (distinct (f T M) (S T M (sat (Hf T)))) (distinct (f T M) (S T M (sat (Hc T))))))' % ge0)
    q['Q_order'] = ('the high threshold is never below the low one: high or low implies measure >= target',
                    '(assert %s) (assert (or (= (f T M) (_ bv2 2)) (= (f T M) (_ bv1 2)))) (assert (%s M T))' % (ge0, lt))
    q['Q_mono'] = ('urgency never decreases as the measure grows (any target)',
                   '(assert (%s M M2)) (assert (not (= (f T M) (_ bv3 2)))) (assert (not (= (f T M2) (_ bv3 2)))) (assert (bvugt (f T M) (f T M2)))' % (le,))
    q['Q_reach_high'] = ('vacuity witness: some input yields high', '(assert %s) (assert (= (f T M) (_ bv2 2)))' % ge0)
    q['Q_reach_low'] = ('vacuity witness: some input yields low', '(assert %s) (assert (= (f T M) (_ bv1 2)))' % ge0)
    q['Q_reach_none'] = ('vacuity witness: some input yields none', '(assert %s) (assert (= (f T M) (_ bv0 2)))' % ge0)
    return q


def run_solver(solver, script, timeout=120):
    if solver == 'z3':
        cmd = ['/usr/bin/z3', '-in', '-T:%d' % timeout]
    else:
        cmd = ['cvc5', '--lang', 'smt2', '--produce-models', '--tlimit=%d' % (timeout * 1000)]
    t0 = time.time()
    p = subprocess.run(cmd, input=script.encode(), stdout=subprocess.PIPE, stderr=subprocess.STDOUT, timeout=timeout + 30)
    out = p.stdout.decode()
    return out, time.time() - t0


def solve(defs, w, qbody, want_model, replayable=None):
    base = '(set-logic QF_BV)\n(set-option :produce-models true)\n' + defs
    base += '(declare-const T (_ BitVec %d))\n(declare-const M (_ BitVec %d))\n(declare-const M2 (_ BitVec %d))\n' % (w, w, w)
    base += qbody + '\n'
    if replayable:
        base += replayable + '\n'
    script = base + '(check-sat)\n'
    res = {}
    for solver in ('z3', 'cvc5'):
        out, secs = run_solver(solver, script)
        first = out.strip().split('\n')[0].strip() if out.strip() else ''
        if '(error' in out:
            verdict = 'error'
        elif first in ('sat', 'unsat'):
            verdict = first
        else:
            verdict = 'unknown'
        model = None
        if verdict == 'sat' and want_model:
            out2, secs2 = run_solver(solver, script + '(get-value (T M M2 (f T M) (f T M2)))\n')
            secs += secs2
            vals = re.findall(r'#[xb][0-9a-fA-F]+', out2)
            if '(error' not in out2 and len(vals) >= 5:
                def num(s):
                    return int(s[2:], 16) if s[1] == 'x' else int(s[2:], 2)
                model = {'T': num(vals[0]), 'M': num(vals[1]), 'M2': num(vals[2]), 'fTM': num(vals[3]), 'fTM2': num(vals[4])}
        res[solver] = {'verdict': verdict, 'secs': round(secs, 3), 'model': model, 'raw': out[:300] if verdict in ('error', 'unknown') else ''}
    return res, script


def to_signed(v, w, signed):
    if signed and v >= (1 << (w - 1)):
        return v - (1 << w)
    return v


def py_spec_allowed(T, M, w, signed):
    """set of outcomes the property allows for (T, M), exact integers"""
    tmax = (1 << (w - 1)) - 1 if signed else (1 << w) - 1
    out = set()
    for h in ((3 * T) // 2, (3 * T + 1) // 2):
        for hh in (h, min(h, tmax)):
            out.add('High' if M >= hh else ('Low' if M >= T else 'None'))
    return out


def validate_translator(paths, fname, w, signed):
    """push the repo's unit-test vectors through the encoding"""
    defs = smt_defs(paths, w)
    ok = 0
    for (T, M, exp) in TEST_VECTORS[fname]:
        body = '(assert (= T (_ bv%d %d))) (assert (= M (_ bv%d %d))) (assert (distinct (f T M) (_ bv%d 2)))' % (T, w, M, w, mir2smt.OUT_CODE[exp])
        r, _ = solve(defs, w, body, False)
        if all(x['verdict'] == 'unsat' for x in r.values()):
            ok += 1
        else:
            return ok, 'vector (%d,%d)->%s not reproduced by the encoding: %s' % (T, M, exp, r)
    return ok, None
