"""Shared plumbing of the /verif checks: paths, process running, evidence, known findings."""
import json
import os
import subprocess
import sys
import time

VERIF = os.path.dirname(os.path.dirname(os.path.abspath(__file__)))
REPO = os.environ.get('VERIF_REPO', '/repo')
BUILD = os.path.join(VERIF, '.build')
EVID = os.path.join(VERIF, 'evidence')
REPLAYS = os.path.join(VERIF, 'replays')
NCPU = os.cpu_count() or 4


def link_repo():
    """the harness crates name the repository as <verif>/.repo (a symlink), so that a copy of
    /verif can be pointed at a copy of the repository (VERIF_REPO); default /repo"""
    ln = os.path.join(VERIF, '.repo')
    want = os.path.realpath(REPO)
    try:
        if os.path.islink(ln) and os.path.realpath(ln) == want:
            return
        if os.path.islink(ln) or os.path.exists(ln):
            os.unlink(ln)
        os.symlink(want, ln)
        invalidate_repo_builds()
    except OSError:
        pass


def invalidate_repo_builds():
    """The link now names another copy of the repository. Cargo decides freshness of a path
    dependency by file times, so a copy with OLDER files would be taken for already built (and the
    previous copy's code would be used). The Kani build slots are removed altogether (a partial
    clean-up of cargo's build-dir layout leaves kani-driver without its metadata); in the native
    target directories the fingerprints of the repository's and the harness crates are dropped."""
    import glob
    import shutil
    for d in glob.glob(os.path.join(BUILD, 'k-t*')) + glob.glob(os.path.join(BUILD, 's-t*')):
        shutil.rmtree(d, ignore_errors=True)
    pk = ('taskchampion-sync-server', 'taskchampion_sync_server', 'vk', 'vs', 'vreplay')
    for root, dirs, _files in os.walk(BUILD):
        if os.path.basename(root) == '.fingerprint':
            for d in list(dirs):
                if any(d == p or d.startswith(p + '-') or d.startswith(p + '_') for p in pk):
                    shutil.rmtree(os.path.join(root, d), ignore_errors=True)
            dirs[:] = []


link_repo()

ENV = dict(os.environ)
ENV.update({'CARGO_NET_OFFLINE': 'true', 'CARGO_TERM_COLOR': 'never'})


def log(*a):
    print(*a, file=sys.stderr, flush=True)


def run(cmd, cwd=None, timeout=None, env=None, mem_gb=None, stdout_path=None):
    """run a command, return (rc, output, seconds); rc 124 on timeout"""
    e = dict(ENV)
    if env:
        e.update(env)
    pre = None
    if mem_gb:
        import resource

        def pre():
            lim = int(mem_gb * (1 << 30))
            resource.setrlimit(resource.RLIMIT_AS, (lim, lim))
    t0 = time.time()
    import signal
    f = open(stdout_path, 'wb') if stdout_path else None
    p = subprocess.Popen(cmd, cwd=cwd, env=e, stdout=f or subprocess.PIPE, stderr=subprocess.STDOUT, preexec_fn=pre, start_new_session=True)
    _LIVE.add(p.pid)
    timed_out = False
    try:
        outb, _ = p.communicate(timeout=timeout)
    except subprocess.TimeoutExpired:
        timed_out = True
        # the whole process group: cargo-kani -> kani-driver -> cbmc must not outlive the check
        try:
            os.killpg(p.pid, signal.SIGKILL)
        except OSError:
            pass
        outb, _ = p.communicate()
    finally:
        _LIVE.discard(p.pid)
        if f:
            f.close()
    if stdout_path:
        out = open(stdout_path, 'rb').read().decode('utf-8', 'replace')
    else:
        out = (outb or b'').decode('utf-8', 'replace')
    return (124 if timed_out else p.returncode), out, time.time() - t0


_LIVE = set()


def _descendants(root):
    kids = {}
    for d in os.listdir('/proc'):
        if not d.isdigit():
            continue
        try:
            with open('/proc/%s/stat' % d) as f:
                st = f.read()
            ppid = int(st[st.rindex(')') + 2:].split()[1])
            kids.setdefault(ppid, []).append(int(d))
        except (OSError, ValueError):
            continue
    out, todo = [], [root]
    while todo:
        p = todo.pop()
        for k in kids.get(p, []):
            out.append(k)
            todo.append(k)
    return out


def _kill_children(*_a):
    import signal
    for pid in list(_LIVE):
        try:
            os.killpg(pid, signal.SIGKILL)
        except OSError:
            pass
    # worker processes of engine I's pool and anything else still below this check
    for pid in _descendants(os.getpid()):
        try:
            os.kill(pid, signal.SIGKILL)
        except OSError:
            pass


def install_cleanup():
    """a check that is interrupted takes its solver processes with it"""
    import atexit
    import signal
    atexit.register(_kill_children)

    def h(signum, _frame):
        _kill_children()
        os._exit(130)
    signal.signal(signal.SIGTERM, h)
    signal.signal(signal.SIGINT, h)


def known_findings():
    """entries of /verif/known_findings.jsonl; 'known' entries suppress exactly the listed failing
    case, 'fixed' entries suppress nothing"""
    out = []
    p = os.path.join(VERIF, 'known_findings.jsonl')
    if os.path.exists(p):
        for ln in open(p):
            ln = ln.strip()
            if ln and not ln.startswith('#'):
                out.append(json.loads(ln))
    return out


def write_evidence(pid, tier, seed, coverage, assumptions, wall_s, violations, extra=None):
    os.makedirs(EVID, exist_ok=True)
    ev = {
        'property_id': pid,
        'tier': tier,
        'seed': seed,
        'level': 'model_checking',
        'coverage': coverage,
        'assumptions': assumptions,
        'wall_s': round(wall_s, 2),
        'violations': violations,
    }
    if extra:
        ev.update(extra)
    tmp = os.path.join(EVID, pid + '.json.tmp')
    with open(tmp, 'w') as f:
        json.dump(ev, f, indent=1)
    os.replace(tmp, os.path.join(EVID, pid + '.json'))
    return ev
