"""Shared plumbing of the /verif checks: paths, process running, evidence, known findings."""
import json
import os
import subprocess
import sys
import time

VERIF = os.path.dirname(os.path.dirname(os.path.abspath(__file__)))
REPO = os.environ.get('VERIF_REPO', '/repo')
BUILD = os.path.join(VERIF, '.build')
EVID = os.path.join(VERIF, 'evidence')
REPLAYS = os.path.join(VERIF, 'replays')
NCPU = os.cpu_count() or 4

ENV = dict(os.environ)
ENV.update({'CARGO_NET_OFFLINE': 'true', 'CARGO_TERM_COLOR': 'never'})


def log(*a):
    print(*a, file=sys.stderr, flush=True)


def run(cmd, cwd=None, timeout=None, env=None, mem_gb=None, stdout_path=None):
    """run a command, return (rc, output, seconds); rc 124 on timeout"""
    e = dict(ENV)
    if env:
        e.update(env)
    pre = None
    if mem_gb:
        import resource

        def pre():
            lim = int(mem_gb * (1 << 30))
            resource.setrlimit(resource.RLIMIT_AS, (lim, lim))
    t0 = time.time()
    try:
        if stdout_path:
            with open(stdout_path, 'wb') as f:
                p = subprocess.run(cmd, cwd=cwd, env=e, stdout=f, stderr=subprocess.STDOUT, timeout=timeout, preexec_fn=pre, start_new_session=True)
            out = open(stdout_path, 'rb').read().decode('utf-8', 'replace')
        else:
            p = subprocess.run(cmd, cwd=cwd, env=e, stdout=subprocess.PIPE, stderr=subprocess.STDOUT, timeout=timeout, preexec_fn=pre, start_new_session=True)
            out = p.stdout.decode('utf-8', 'replace')
        return p.returncode, out, time.time() - t0
    except subprocess.TimeoutExpired as ex:
        out = ''
        if stdout_path and os.path.exists(stdout_path):
            out = open(stdout_path, 'rb').read().decode('utf-8', 'replace')
        elif ex.stdout:
            out = ex.stdout.decode('utf-8', 'replace')
        subprocess.run(['pkill', '-x', 'cbmc'], check=False) if False else None
        return 124, out, time.time() - t0


def known_findings():
    """entries of /verif/known_findings.jsonl; 'known' entries suppress exactly the listed failing
    case, 'fixed' entries suppress nothing"""
    out = []
    p = os.path.join(VERIF, 'known_findings.jsonl')
    if os.path.exists(p):
        for ln in open(p):
            ln = ln.strip()
            if ln and not ln.startswith('#'):
                out.append(json.loads(ln))
    return out


def write_evidence(pid, tier, seed, coverage, assumptions, wall_s, violations, extra=None):
    os.makedirs(EVID, exist_ok=True)
    ev = {
        'property_id': pid,
        'tier': tier,
        'seed': seed,
        'level': 'model_checking',
        'coverage': coverage,
        'assumptions': assumptions,
        'wall_s': round(wall_s, 2),
        'violations': violations,
    }
    if extra:
        ev.update(extra)
    tmp = os.path.join(EVID, pid + '.json.tmp')
    with open(tmp, 'w') as f:
        json.dump(ev, f, indent=1)
    os.replace(tmp, os.path.join(EVID, pid + '.json'))
    return ev
