"""Per-property configuration: which harnesses of which engine decide it, at which bounds."""

K_STUBS = [
    'uuid::Uuid::new_v4 -> next value of a pre-drawn symbolic pool forced to the v4 bit pattern, ASSUMED distinct from every id in the state and in the request (RNG freshness is the RNG\'s contract)',
    'chrono::Utc::now -> one fixed instant; snapshot ages come from an 8-entry concrete table selected by a symbolic index (threshold arithmetic is decided at full width by engine M)',
    'alloc::fmt::format -> empty string (feeds only log lines and error contexts)',
    '<anyhow::Error as Drop>::drop -> no-op (error values still flow; only their destruction is skipped)',
    'std::backtrace::Backtrace::capture -> Backtrace::disabled()',
]
K_ASSUME = [
    'storage behaves as the StorageTxn contract of core/src/storage.rs (ModelStorage: exclusive transactions, uncommitted changes vanish, committed ones persist)',
    'the in-memory backend refines that contract (its std HashMap code is not encodable with Kani: DESIGN.md 7.1)',
    'at most two clients, payload/snapshot bytes <= 2, chain length bound as stated per harness; longer chains are outside the claim',
] + K_STUBS

H_ASSUME = [
    'engine H: actix-web, uuid, futures and the Server entry points are the ENVIRONMENT: each call returns an arbitrary value of its result type (all outcome classes forked), constrained only by: HeaderMap::get/HeaderValue::to_str/Uuid::parse_str may each succeed or fail; HashSet::contains is an arbitrary predicate; the body stream yields <= 3 chunks of arbitrary length >= 0, then ends or fails; PayloadError maps to a 4xx (actix ResponseError); error::ErrorX constructors and HttpResponse::X builders carry the status their name says',
    'engine H: what actix does with the returned response/error object afterwards (serialisation, default headers, routing, extractors) is outside the claim',
]

I_ASSUME = [
    'engine I: std::collections::HashMap is the ENVIRONMENT of the in-memory backend: a map is a bounded list of entries with pairwise distinct symbolic keys; get/get_mut/contains_key/insert/remove/entry have their documented semantics',
    'engine I: pre-states satisfy the representation invariant of core/src/inmemory.rs (children index <-> version records, snapshot data <-> snapshot metadata, versions belong to existing clients, latest is one of the client\'s versions); the invariant is re-established by every method inside its precondition (checked)',
    'engine I: payloads and timestamps are opaque tokens the code may move and clone but not inspect; versions_since < u32::MAX; std::sync::Mutex is not modelled (single transaction)',
    'engine I, history mode: three bounded histories (<= 11 calls, two clients, every id symbolic) from the EMPTY store, every call compared with a symbolic reference implementation of the contract; no assumption on how Inner represents the state; histories respect the documented preconditions',
    'engine I: when the current source cannot be encoded, or a violated obligation does not reproduce as a public-API history on the real backend, the in-memory leg is reported as not decided (NOTE line, evidence engine_i.not_decided) and the verdict rests on the other engines',
]

Q_ASSUME = [
    'engine Q: rusqlite and SQLite are the ENVIRONMENT of the glue: every SQL string the glue passes is parsed (s/gen_sql.py subset) and interpreted over symbolic rows with SQLite\'s documented semantics (first match in insertion order, NULL never equal, NULL + 1 = NULL, PRIMARY KEY / UNIQUE / NOT NULL / DEFAULT from the CREATE statements of the current source, INSERT OR REPLACE deletes the conflicting row); transactions and locking are not modelled here (engine S s_exclusive)',
    'engine Q: StoredUuid <-> text is taken as the canonical codec (decided for all 2^128 ids by s_codec_enc / s_codec_dec), chrono seconds <-> DateTime as the identity on an opaque 32-bit token, payloads as opaque 16-bit tokens',
    'engine Q: four bounded histories (<= 11 calls, two clients, every id symbolic) from the EMPTY database; histories respect the documented preconditions (client exists for writes, globally fresh version id, parent without child); when the current glue cannot be encoded or a violated obligation does not reproduce on the real SqliteStorage the leg is reported as not decided',
]

FUNCS_SERVER = ['core/src/server.rs: Server::add_version', 'Server::get_child_version', 'Server::add_snapshot', 'Server::get_snapshot', 'Server::txn (compiled MIR via Kani)']

PROPS = {
    'C01': dict(
        Q=True,
        I=['c'],
        K=dict(quick=['c01_step_n7_k0', 'c01_step_n7_k1', 'c01_step_n7_k3', 'c01_hist_k2'], thorough=['c01_step_n8_k0', 'c01_step_n8_k1', 'c01_step_n8_k2', 'c01_step_n8_k3', 'c01_walk_n6', 'c01_hist_k3', 'c01_step_n7_k2', 'c01_walk_n4']),
        S=dict(quick=[], thorough=['s_reads_byparent', 's_writes_addversion', 's_reopen']),
        bounds='induction step from every REACH-shaped state with chain <= 7 (thorough 8), 2 clients, any request with any 128-bit ids; walk at chain <= 4 (6); histories of 2 (3) requests from the empty store',
    ),
    'C02': dict(
        Q=True,
        H=['c06', 'c14'],
        I=['c'],
        K=dict(quick=['c02_cas_n7'], thorough=['c02_cas_n8']),
        S=dict(quick=[], thorough=['s_writes_addversion']),
        bounds='every REACH-shaped state with chain <= 7 (8), 2 clients (known/unknown), arbitrary 128-bit parent and client id, payload <= 2 bytes',
    ),
    'C03': dict(
        H=['c03'],
        K=dict(quick=['c03_one_txn_n7', 'c03_pairs_n2_av_av', 'c03_race_replace', 'c03_race_err'], thorough=['c03_one_txn_n8', 'c03_pairs_n2_av_av', 'c03_pairs_n2_av_as', 'c03_pairs_n2_as_av', 'c03_pairs_n2_as_as', 'c03_pairs_n2_gc_av', 'c03_pairs_n2_gs_as', 'c03_race_replace', 'c03_race_err', 'c03_race3_replace']),
        S=dict(quick=['s_exclusive'], thorough=['s_exclusive']),
        bounds='2 overlapping requests (thorough: 3 for the new-client race), every pairing of the four operations, interleaving at transaction granularity (sound given exclusivity, which s_c03_exclusive decides for the SQLite glue), <= 3 retries',
    ),
    'C04': dict(
        Q=True,
        K=dict(quick=['c04_atomic_ack_n7_k0', 'c04_atomic_ack_n4_rd'], thorough=['c04_atomic_ack_n8_k0', 'c04_atomic_ack_n7_k2', 'c04_atomic_ack_n4_rd', 'c04_atomic_ack_n4_k2']),
        S=dict(quick=['s_exclusive'], thorough=['s_exclusive', 's_writes_newclient', 's_writes_snapshot', 's_writes_addversion']),
        bounds='crash index over the first 14 storage calls of one operation from every REACH-shaped state; TRANSACTION-LEVEL crash model only (file-system crash points inside SQLite are not encodable)',
    ),
    'C05': dict(
        Q=True,
        H=['c05'],
        K=dict(quick=['c05_fault_n3_k0', 'c05_fault_n3_k1', 'c05_fault_n2_k2', 'c05_fault_n3_k3', 'c05_begin_n3'], thorough=['c05_fault_n5_k0', 'c05_fault_n5_k1', 'c05_fault_n5_k2', 'c05_fault_n5_k3', 'c05_begin_n3', 'c05_fault2_n3_k0', 'c05_fault2_n3_k2', 'c05_fault_n3_k2']),
        S=dict(quick=[], thorough=['s_faults']),
        bounds='one failing storage call (thorough: two) at any of the first 12 calls, failing before or (commit) after taking effect; any operation; chain <= 4 (7)',
    ),
    'C06': dict(
        Q=True,
        I=['c'],
        H=['c06'],
        K=dict(quick=['c06_roundtrip_n3'], thorough=['c06_roundtrip_n3']),
        S=dict(quick=[], thorough=['s_blob_version', 's_blob_snapshot']),
        bounds='payload and snapshot of symbolic length 0..2 and symbolic bytes through the compiled Server and the SQLite glue; longer payloads (page boundaries up to 100 MiB) are outside the claim',
    ),
    'C07': dict(
        Q=True,
        I=['c'],
        K=dict(quick=['c07_frame_n7_k0', 'c07_frame_n7_k2', 'c07_frame_n4_rd'], thorough=['c07_frame_n8_k0', 'c07_frame_n8_k2', 'c07_frame_n4_rd']),
        S=dict(quick=[], thorough=['s_writes_addversion', 's_reads_byparent', 's_reopen']),
        bounds='every REACH-shaped state with chain <= 7 (8), any later request of either client, every earlier version re-read',
    ),
    'C08': dict(
        Q=True,
        K=dict(quick=['c08_table_n7'], thorough=['c08_table_n8']),
        S=dict(quick=[], thorough=['s_writes_addversion', 's_reads_byparent']),
        bounds='every REACH-shaped state with chain <= 7 (8), arbitrary 128-bit p, known and unknown clients; AddVersion half = the real add_version on the same state',
    ),
    'C09': dict(
        Q=True,
        H=['c16'],
        I=['c'],
        K=dict(quick=['c09_nonint_n3_k0', 'c09_nonint_n3_k1', 'c09_nonint_n3_k2', 'c09_nonint_n3_k3'], thorough=['c09_nonint_n4', 'c09_nonint_n3']),
        S=dict(quick=[], thorough=['s_reads_client', 's_reads_snapdata', 's_reads_byparent', 's_reads_byid', 's_writes_newclient', 's_writes_snapshot', 's_writes_addversion']),
        bounds='two clients, one arbitrary request each, chain <= 4 (7); ids quoted by one client may be any id of the other',
    ),
    'C10': dict(
        K=dict(quick=['c10_none_n7', 'c10_prev_n7'], thorough=['c10_none_n8', 'c10_prev_n8']),
        bounds='every REACH-shaped chain <= 7 (8) (window of 5 exercised on both sides), existing snapshot at any position or none, arbitrary 128-bit v',
    ),
    'C11': dict(
        Q=True,
        I=['c'],
        K=dict(quick=['c11_none_n7', 'c11_prev_n7'], thorough=['c11_none_n8', 'c11_prev_n8', 'c11_interleaved_n2', 'c11_interleaved_n4']),
        S=dict(quick=[], thorough=['s_reads_snapdata', 's_reads_byid', 's_writes_snapshot', 's_reads_client']),
        bounds='as C10, followed by the real get_snapshot and get_child_version; one interfering AddVersion/AddSnapshot at transaction granularity, chain <= 4',
    ),
    'C12': dict(
        Q=True,
        I=['c'],
        M=True,
        K=dict(quick=['c12_wiring_n2'], thorough=['c12_wiring_n2']),
        S=dict(quick=[], thorough=['s_writes_addversion', 's_writes_snapshot']),
        bounds='threshold kernels: ALL 2^64 x 2^64 (days) and 2^32 x 2^32 (versions) inputs, dev and release overflow settings (loop-free, full bit-width); wiring: symbolic config and counter, ages from an 8-entry table, chain <= 2',
    ),
    'C13': dict(
        Q=True,
        I=['c'],
        S=dict(quick=['s_exclusive'], thorough=['s_reads_client', 's_reads_snapdata', 's_reads_byparent', 's_reads_byid', 's_writes_newclient', 's_writes_snapshot', 's_writes_addversion', 's_reopen']),
        bounds='SQLite glue vs storage contract, per StorageTxn method, rows <= 3; reopen between any two steps (quick: the three write methods, get_client and reopen; the other read methods run in the quick checks of C09/C11/C18 and in the thorough tier here); in-memory backend vs contract: every method (engine I)',
    ),
    'C14': dict(
        H=['c14'],
        bounds='all paths of the four handler coroutine bodies and of client_id_header (MIR), environment outcomes forked exhaustively, <= 3 body chunks, <= 3 create-and-retry rounds, both allow-list configurations',
    ),
    'C15': dict(
        H=['c15'],
        bounds='as C14; body sizes are solver integers (exact boundary at 100 MiB for 1, 2 and 3 chunks); routing-level refusals (unknown route/method, malformed path ids, header syntax) live inside actix and are outside the claim',
    ),
    'C16': dict(
        H=['c16'],
        bounds='as C14; allow-list membership is an uninterpreted predicate (any list, any id)',
    ),
    'C18': dict(
        Q=True,
        H=['c15'],
        I=['c'],
        K=dict(quick=['c18_frame_n7_k0', 'c18_frame_n7_k1', 'c18_frame_n7_k2', 'c18_frame_n7_k3'], thorough=['c18_frame_n8_k0', 'c18_frame_n8_k1', 'c18_frame_n8_k2', 'c18_frame_n8_k3']),
        S=dict(quick=[], thorough=['s_reads_client', 's_reads_snapdata', 's_reads_byparent', 's_reads_byid']),
        bounds='every REACH-shaped state with chain <= 7 (8), every request; all non-mutating outcomes',
    ),
    'C19': dict(
        S=dict(quick=['s_codec_enc'], thorough=['s_codec_enc', 's_codec_dec', 's_upgrade_plain', 's_upgrade_snap']),
        bounds='id text codec for all 2^128 ids; content written by the pinned glue (2 clients, <= 3 versions) read by the current glue',
    ),
}
