#!/bin/bash
# Build everything the checks need from files on disk only (offline): the native replay binaries
# and the dependency builds of the Kani slots and of the MIR dump, so that a check only has to
# rebuild /repo's own crates and the harness crates.
set -u
cd "$(dirname "$0")"
V="$(pwd)"
REPO="${VERIF_REPO:-/repo}"
ln -sfn "$REPO" .repo
export CARGO_NET_OFFLINE=true
mkdir -p .build evidence replays
cp $REPO/Cargo.lock k/Cargo.lock
cp $REPO/Cargo.lock replay/Cargo.lock
cp $REPO/Cargo.lock s/harness/Cargo.lock
python3 s/gen_sql.py $REPO/sqlite/src/lib.rs fixtures/pinned/sqlite_lib.rs > s/rusqlite-model/src/gen.rs.tmp && mv s/rusqlite-model/src/gen.rs.tmp s/rusqlite-model/src/gen.rs
python3 s/gen_glue.py $REPO/sqlite/src/lib.rs s/harness/src/gen_real.rs
python3 s/gen_glue.py fixtures/pinned/sqlite_lib.rs s/harness/src/gen_old.rs
( cd replay && CARGO_TARGET_DIR=../.build/replay-target cargo build --offline >/dev/null 2>&1; CARGO_TARGET_DIR=../.build/replay-target cargo build --offline --release >/dev/null 2>&1 ) &
for i in 0 1 2 3 4 5; do
  ( cd k && cargo kani --target-dir ../.build/k-t$i -Z stubbing --only-codegen >/dev/null 2>&1 ) &
done
wait
for i in 0 1 2 3 4; do
  ( cd s/harness && cargo kani --target-dir ../../.build/s-t$i -Z stubbing --only-codegen >/dev/null 2>&1 ) &
done
( cd s/harness && CARGO_TARGET_DIR=../../.build/sreplay-target cargo build --offline --bin sreplay >/dev/null 2>&1 ) &
( cd "$REPO" && CARGO_TARGET_DIR=$V/.build/mir/sqlite/target cargo +nightly rustc --offline -p taskchampion-sync-server-storage-sqlite --lib -- -Zunpretty=mir >/dev/null 2>&1 ) &
( cd "$REPO" && CARGO_TARGET_DIR=$V/.build/mir/server/target cargo +nightly rustc --offline -p taskchampion-sync-server --lib -- -Zunpretty=mir >/dev/null 2>&1 ) &
( cd "$REPO" && CARGO_TARGET_DIR=$V/.build/mir/dev/target cargo +nightly rustc --offline -p taskchampion-sync-server-core --lib -- -Zunpretty=mir >/dev/null 2>&1;
  CARGO_TARGET_DIR=$V/.build/mir/release/target cargo +nightly rustc --offline -p taskchampion-sync-server-core --lib -- -Zunpretty=mir >/dev/null 2>&1 ) &
wait
test -x .build/replay-target/debug/vreplay || { echo "setup: replay binary missing"; exit 1; }
echo "setup ok"
