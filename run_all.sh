#!/bin/bash
# run every claimed check of MANIFEST.json once (tier = $1, default quick); log to .build/runall-<tier>.log
cd "$(dirname "$0")"
tier=${1:-quick}
ids=$(python3 -c "import json; print(' '.join(c['property_id'] for c in json.load(open('MANIFEST.json'))['checks']))")
for id in ${2:-$ids}; do
  t0=$(date +%s)
  ./check $id --tier $tier > .build/out-$id-$tier.txt 2>&1
  rc=$?
  echo "$id rc=$rc $(( $(date +%s) - t0 ))s $(grep -a -E '^(OK|VIOLATION|INCONCLUSIVE|KNOWN)' .build/out-$id-$tier.txt | head -3 | cut -c1-200 | tr '\n' '|')" | tee -a .build/runall-$tier.log
done
